#!/bin/sh
# dev helper: validate MANIFEST.json and all evidence files against the schemas
python3-vt - <<'PY'
import json,jsonschema,glob
jsonschema.validate(json.load(open('/verif/MANIFEST.json')),json.load(open('/root/.vp/MANIFEST.schema.json')))
print('manifest ok')
sch=json.load(open('/root/.vp/EVIDENCE.schema.json'))
for f in sorted(glob.glob('/verif/evidence/*.json')):
    jsonschema.validate(json.load(open(f)),sch); print('ok',f)
PY
