#!/usr/bin/env python3
"""Regenerates /verif/MANIFEST.json from the table below (dev helper; the result is committed)."""
import json
import os
import subprocess

VERIF = os.path.dirname(os.path.abspath(__file__))

SIM = "stateful property-based testing (rapid): generated API histories against a reference model"

CHECKS = {
    "C01": dict(
        text="Generated histories of every mutating ID-based call are executed on the real world and on a reference model written from the documentation; after every single operation the component set and the value bytes of every alive entity are read back through World and Query accessors and compared, and a verif-tagged hook checks rows<->index consistency and zeroed free rows. Sampling of an unbounded history space in both mask-width builds.",
        note="Trusts the reference model (harness/core/model.go) and the padding masks computed by reflection; pointer-free component types only (pointer-holding ones are C14).",
        technique=SIM + "; read-back of all values after every step; structural invariants via hook",
        ref="DESIGN.md section 5, C01"),
    "C02": dict(
        text="Generated interleavings of single/batch creations (up to 300 per call), removals, RemoveEntities, Reset and DumpEntities/LoadEntities; after every operation Alive of every handle issued since the last reset, handle freshness and uniqueness, the used count and the set Query(All()) yields are compared with the model; the entity-pool free list is checked through the hook.",
        note="Generation wrap-around (2^32 removals of one id) is out of reach. Handles across Reset are not asked about (DESIGN 4.4).",
        technique=SIM + "; handle-history oracle + free-list invariant",
        ref="DESIGN.md section 5, C02"),
    "C03": dict(
        text="Generated filters (full grammar, plain and registered, relation filters with alive/dead/zero targets) and generated scripts of Count/EntityAt/Next/Step/Close are run against generated worlds; a pure-Next pass is the reference order, the model gives the expected set, and every accessor at every position is compared with the World's. The queries returned by all Q-variant batch calls are checked the same way.",
        note="For entities without relation component under a top-level RelationFilter only validity is asserted (DESIGN 4.5).",
        technique=SIM + "; differential between scripted iteration and a pure-Next pass",
        ref="DESIGN.md section 5, C03"),
    "C04": dict(
        text="Generated masks, ID sets and filter expressions are compared against a []bool set model / a boolean evaluator written from the documentation; the small sub-spaces (all ordered ID pairs, all single-ID masks and leaf filters) are enumerated completely in both mask-width builds.",
        note="Trusts the set model and evaluator in harness/core/filter.go; the random part is a sample of an unbounded space.",
        technique="property-based testing (rapid) against a set/boolean reference model + exhaustive enumeration of ID pairs",
        ref="DESIGN.md section 5, C04"),
    "C05": dict(
        text="Relation-centred generated histories through every API that takes a target, with injected faults (dead targets incl. recycled ids, second relation components); after every operation Relations.Get, Query.Relation and one RelationFilter query per (relation component, target in use or dead) are compared with the model, and every injected fault must panic and leave the world equal to the unchanged model. Generic part (TestC05Generic): targets assigned and relation filters built through package generic (MapN, Map, Exchange, FilterN.WithRelation with fixed, re-assigned and call-time targets) in lock-step with the ID-based calls; only target and relation-filter mismatches are owned.",
        note="Statement scoped to entities carrying a relation component, as worded (DESIGN 4.5).",
        technique=SIM + " with fault injection (dead targets, second relations)",
        ref="DESIGN.md section 5, C05"),
    "C06": dict(
        text="Histories biased to parents dying while their child tables are empty, non-empty or emptied later, self-targets, parents and children removed by one RemoveEntities call, Reset, followed by reuse of the same component sets under new targets; removals must not panic, children keep components/values/dead target, per-target RelationFilter queries (live and dead targets) equal the model, and the hook checks node/free-list/target-map consistency and that retired tables are empty and zeroed.",
        note="Leftover empty tables of dead targets are not asserted (unobservable except through Stats).",
        technique=SIM + "; retire/reuse cycles observed through the hook",
        ref="DESIGN.md section 5, C06"),
    "C07": dict(
        text="Register/Unregister at arbitrary points of relation-heavy histories with Reset cycles; after every operation every registered filter is queried through the cached and the original filter (entity sets and Count must agree); batch operations issued through a registered filter must affect exactly what the original filter selected immediately before; the hook recomputes every cached table list from scratch.",
        note="Registered filters are used top-level only (the documented use).",
        technique=SIM + "; differential cached vs. original filter on the same world + cache invariant via hook",
        ref="DESIGN.md section 5, C07"),
    "C08": dict(
        text="Two worlds in lock-step: one executes the batch call, the other the documented single-entity call per matching entity; both are compared completely with the model after the call and after every later operation; counts and Q-variant queries are checked against the set the filter selected before the call.",
        note="Worlds are compared through creation ordinals, not raw handles (DESIGN 4.17).",
        technique=SIM + "; differential batch call vs. loop of single calls on lock-step worlds",
        ref="DESIGN.md section 5, C08"),
    "C09": dict(
        text="ID-based part: generated world histories interleaved with lock episodes: nested queries through plain and registered filters released by generated paths and orders, the lock of a Q-variant's returned query, the lock held during removal-event delivery, and the full nesting limit. Under every lock the complete table of ID-based structural entry points (27 entries plus no-effect forms, arguments legal in the current state) is walked: each call must panic with the locked-world message and leave the hook's digest of the hidden state byte-identical; lock-bit count must equal the number of open queries after every open/release; afterwards the refused call is repeated and must succeed. Generic part (second test function): for generated adapter, lock source (plain query, generic filter query, query of a generic NewBatchQ), nesting depth and world fill the complete table of 24-27 generic structural entry points is called with legal arguments under lock and again after release.",
        note="The entry-point table is enumerated completely per episode; world states, lock shapes and release orders are sampled. World.Set is not in the statement's list and is not asserted (DESIGN 4.10).",
        technique=SIM + "; fault enumeration of all structural entry points under generated lock shapes; hidden-state digest before/after",
        ref="DESIGN.md section 5, C09"),
    "C10": dict(
        text="Legal generated histories with injected illegal calls (35% of operations) of every class the documentation declares illegal (15 classes through ~40 call sites, plus out-of-range query calls, cache/resource/registry misuse); each must panic, and for single-entity operations the world must afterwards equal the unchanged model in every observable, including - through the hook - the entity pool that determines future handles; the history continues and keeps matching the model. Generic part (TestC10Generic): 15 classes of illegal calls through package generic must panic like their documented ID-based equivalents and change nothing.",
        note="Illegal batch calls are only required to panic (the statement restricts 'changes nothing' to single-entity operations, DESIGN 4.8). Hidden bookkeeping (empty tables, graph nodes) may change on a rejected call (DESIGN 4.9).",
        technique=SIM + " with fault injection of every documented illegal-argument class",
        ref="DESIGN.md section 5, C10"),
    "C11": dict(
        text="A recorder subscribed to everything; for every operation of generated histories the delivered events are compared, entity by entity, with the change the model computed (masks, ID lists, old/new relation, old target, type bits, lock state and entity state at delivery time, Q-variant timing); a twin world without listener attributes listener-only panics.",
        note="Order of events inside one batch call is not compared (DESIGN 4.7).",
        technique=SIM + "; per-entity event/model-difference oracle",
        ref="DESIGN.md section 5, C11"),
    "C12": dict(
        text="A generated history is executed in lock-step on a world with a recorder subscribed to everything and on 1-3 worlds whose listener is restricted to event types S (all 64 masks walked across cases) and components C (none / empty / subset), implemented by the harness or by listener.Callback, or is a listener.Dispatch of such sub-listeners with more added mid-history; per operation every restricted listener must have received exactly the subsequence of the full stream selected by the documented rule (re-implemented over plain sets), with identical content and order.",
        note="Assumes the lock-step worlds issue the same events in the same order (identical histories on fresh worlds; that assumption is C13's subject). Sub-listeners do not change their subscriptions after being added (documented requirement).",
        technique=SIM + "; differential restricted listener / Dispatch sub-listener vs. rule-filtered full stream on lock-step worlds",
        ref="DESIGN.md section 5, C12"),
    "C13": dict(
        text="Metamorphic check: a generated history is executed on a fresh world while a trace is recorded per operation (returned handles, counts, iteration order of scripted queries, of Query(All()) and of every registered filter, event sequence with content, DumpEntities, digest of the hidden state); the same operations are then executed on a second fresh world with frequent and forced garbage collections, and the traces must be identical step by step. In addition the same seed is run in 2 (quick) / 3 (thorough) separate OS processes and the digests of all traces are compared.",
        note="'Every process' is sampled by a handful of processes; GC timing is perturbed, not enumerated.",
        technique="metamorphic property-based testing (rapid): same history twice => same trace, under GC perturbation and across OS processes",
        ref="DESIGN.md section 5, C13"),
    "C14": dict(
        text="(t) 13 call-site templates covering every way of supplying a component value, from non-inlined functions whose component literal and referent are locals: after return the stack is overwritten, a GC forced and the referent read back (deterministic). (a) generated histories of creations, removals, moves between tables, batch moves, retargeting, overwriting and Reset on entities whose components hold pointers, slices, maps and strings reachable only through them, with tiny capacity increments, while up to 4 goroutines force collections; every referent is read back after every operation and none may be finalized while its component exists (GODEBUG=clobberfree=1 makes a premature free visible). (b) after removal/overwrite/Reset a deterministic finalizer flush must have released every referent.",
        note="The GC schedule cannot be owned or enumerated from user code: (a) is a stress exploration whose silence is weak evidence and whose hits may need several re-runs to reproduce (replay re-runs the history 30 times); call-site shapes are a finite template set, not generated programs. (t) and (b) are deterministic.",
        technique="property-based testing (rapid): generated histories under forced concurrent GC with finalizer/token oracles + enumerated call-site templates",
        ref="DESIGN.md section 5, C14"),
    "C15": dict(
        text="Histories are cut into segments by Reset (2-3 per history on average); after every Reset a brand-new world with the same types, filter values and listener is created and driven in lock-step with the reset world. Both must equal the same model after every operation (components, values, targets, resources, plain and registered queries, events), creations must issue the same handles, and a finding is reported only where the fresh world passes and the reset world fails.",
        note="Raw handles are compared only while implied: after a batch call over several source tables, row and recycling order depend on table iteration order, which the library does not guarantee across worlds with different table-creation histories (DESIGN 4.17).",
        technique=SIM + "; differential reset world vs. brand-new world in lock-step",
        ref="DESIGN.md section 5, C15"),
    "C16": dict(
        text="Generated interleavings of registrations of generated type shapes (relation embedded first / later / absent, structs, arrays, zero-sized, non-struct) with entity operations biased to the newest and highest IDs, re-registration, registration under lock, filling the registry to the limit plus one, and the resource registry likewise; after every operation the registry observables are checked for density, stability and consistency and every tracked entity is read through every registered ID. Both mask-width builds in both tiers. World.Reset is part of the histories (registrations survive it); the resource registry is modelled too (ResourceIDs/ResourceType after every op) and known component and resource types are looked up again and must keep their IDs; relation tables are retired and reused across registrations.",
        note="Type shapes come from a finite family built with reflect; a named (non-embedded) first field of type ecs.Relation is not generated (ambiguous in the docs, DESIGN 4.11).",
        technique="stateful property-based testing (rapid) against a registry/entity model; read-back through every registered ID",
        ref="DESIGN.md section 5, C16"),
    "C17": dict(
        text="Generated pre-histories leave arbitrary free-list shapes; the dump (optionally passed through encoding/json) is loaded into a fresh or used-and-reset world of another capacity increment; a generated continuation of creations and removals is applied to source and loaded world; Alive answers for every handle, the handles issued during the continuation and the dumps must be identical; loading into a non-empty world must panic without effect; Entity JSON round trips are checked for arbitrary (id, generation). The dump is treated as a value: it is compared with a deep copy after the loaded world went on and loaded a second time into another fresh world.",
        note="Continuations contain creations and single removals only, as the statement says; handles issued before the source world's last reset are not asked about (DESIGN 4.4).",
        technique="stateful property-based testing (rapid): round trip (dump -> JSON -> load) + differential continuation on source and loaded world",
        ref="DESIGN.md section 5, C17"),
    "C18": dict(
        text="Generated Go code instantiates MapN/FilterN/QueryN for every arity 0-12 in natural order, reversed order and with the relation type at a varying position (37 instantiations), plus Map and Exchange; generated histories drive one world through the generic calls and a lock-step world through the ID-based calls documented as equivalent, and both are compared completely after every operation. MapN.Get and QueryN.Get must be pointer-identical, position by position, to World.Get of the declared type. Generated builder scripts (Optional/With/Without/Exclusive/WithRelation before and between queries, Register/Unregister, call-time targets, two open queries) are compared with the equivalent core filter built from the builder state at query-build time. WithRelation is also re-issued with another fixed target between queries. Resource part (TestC18Resource): generic.Resource mappers and GetResource against the ID-based answers over generated Add/Remove/replace/Reset histories.",
        note="Modifying a filter builder while a query built from it is still open is not generated (queries are exhausted before the builder is touched again, except the two-open-queries step).",
        technique="differential property-based testing (rapid): generic API vs. documented ID-based equivalent on lock-step worlds; generated adapters for all arities",
        ref="DESIGN.md section 5, C18"),
    "C19": dict(
        text="Groups of 2-6 worlds with different universes (same type pools, different registration orders) and generated histories. Each history is run alone to get a reference trace; then all are interleaved step by step in one goroutine (after every step the hidden-state digest and observables of all other worlds must be unchanged) and run concurrently, one goroutine per world, in a race-detector build: no race report, no runtime fatal error, every trace equal to the reference. Shared-checkpoint part (TestC19Dump): 2-4 worlds load the same EntityDump value and run their own creation/removal scripts, compared with runs on private copies, interleaved and concurrently under the race detector. Generic part (TestC19Generic): 2-5 histories of generic calls replayed concurrently, same verdict and final state as alone.",
        note="Goroutine schedules are sampled; the race detector compensates because it flags unsynchronised accesses that executed, independent of the exact interleaving. A race report or runtime fatal error cannot be shrunk: the replay file holds the group's histories and is re-run 20 times.",
        technique="property-based testing (rapid) with a differential oracle (alone vs. interleaved vs. concurrent) under the Go race detector",
        ref="DESIGN.md section 5, C19"),
    "C20": dict(
        text="Generated Add/Remove/Get/Has sequences over 4 static resource types through all three access styles and up to the limit of dynamic ones, interleaved with component registrations, entity operations, world locks and Reset, with illegal Add-present/Remove-absent injected; after every operation every registered resource is read through every accessor and compared with a map model (exact pointer identity, nil when absent, dense independent IDs).",
        note="Resource type registration under lock is not asserted to panic (DESIGN 4.14).",
        technique="stateful property-based testing (rapid) against a map model with pointer identity",
        ref="DESIGN.md section 5, C20"),
}

PENDING_REASON = "check under construction in this session (designed in DESIGN.md section 5); not claimed until it runs clean"


# sentences appended to the texts above (parts added late in the project)
EXTRA = {
    "C02": " The dump ops of the histories send the dump through compact or indented encoding/json in half of the cases.",
    "C05": " Every (relation component, target) query is also read by Count + EntityAt(i).",
    "C06": " Every (relation component, target) query is also read by Count + EntityAt(i); findings about relations are owned for as long as children of a dead target exist.",
    "C07": " CachedFilter.Matches must equal the original filter's Matches for the mask of every alive entity.",
    "C09": " One-shot-listener part (TestC09OneShot): a listener that un-installs itself or hands over to another listener inside the removal notification; the world is locked inside and unlocked afterwards. A released query closed a second time must release nothing else. The quick tier also runs two shards of the tiny build (64 lock bits).",
    "C10": " Also: Query.Relation with a component the current entity does not carry as its relation, refused batch creation with component values, refused forms of Relations.ExchangeBatch(Q).",
    "C14": " Clones: new entities whose every component is supplied through the Get pointers of a template entity (read from the tables the call changes and possibly grows), sharing the referents.",
    "C15": " Resource types stay registered under their IDs across Reset (ResourceIDs/ResourceType/ResourceTypeID after every op).",
    "C16": " Relation-ness of static type shapes is also asked through a generic filter (accepted exactly for relation types); T next to *T, []T, [1]T are distinct types.",
    "C17": " Entity JSON is also read with generated insignificant white space and the dump through json.MarshalIndent.",
    "C18": " In half of the cases both worlds carry a recording listener and the event logs of every call must agree. Exchange.Remove/ExchangeBatch with a target, relation components that come in through With (also arity 0), FilterN.Filter, and 16 classes of illegal generic calls are part of the histories.",
    "C20": " Dynamic resource types are related to each other and to the static ones (T, *T, []T, same layout); after Reset the registry must still know every type under its ID.",
}


def main():
    props = [json.loads(l) for l in open(os.path.join(VERIF, "properties.jsonl"))]
    try:
        commits = subprocess.run(["git", "-C", "/repo", "log", "--format=%H %s"], stdout=subprocess.PIPE, text=True).stdout.splitlines()
    except OSError:
        commits = []
    hook_commits = [c.split()[0] for c in commits if " verif:" in c or c.split(" ", 1)[1].startswith("verif")]
    checks = []
    for p in props:
        pid = p["id"]
        if pid not in CHECKS:
            continue
        c = CHECKS[pid]
        checks.append({
            "property_id": pid,
            "quick_cmd": f"./check {pid} --tier quick",
            "thorough_cmd": f"./check {pid} --tier thorough",
            "evidence_file": f"/verif/evidence/{pid}.json",
            "replay_cmd_template": f"./check {pid} --replay {{path}}",
            "engine": "rapid-harness",
            "level_claimed": {"category": "exploration", "text": c["text"] + EXTRA.get(pid, ""), "design_ref": c["ref"]},
            "level_note": c["note"],
            "technique": c["technique"],
        })
    man = {
        "version": 1,
        "setup_cmd": "cd /verif/harness && GOFLAGS=-mod=mod GOPROXY=off GOSUMDB=off GOTOOLCHAIN=local go test -c -tags verif -o /dev/null ./props",
        "hooks": {
            "guard": "verif",
            "enable": "go build tag: go test -tags verif (compiles /repo/ecs/verif_hooks.go)",
            "baseline_off_cmd": "cd /repo && GOFLAGS= GOPROXY=off GOSUMDB=off GOTOOLCHAIN=local go test -vet=off -count=1 ./...",
            "source_commits": hook_commits,
            "add_only": True,
        },
        "engines": [{
            "name": "rapid-harness",
            "path": "/verif/harness",
            "serves_properties": sorted(CHECKS),
            "kind_free_text": "property-based testing with pgregory.net/rapid v1.3.0 (stateful generation, integrated shrinking), reference model + lock-step worlds, driven and sharded by /verif/check (python3 stdlib)",
        }],
        "checks": checks,
        "not_applicable": [{"property_id": p["id"], "reason": PENDING_REASON} for p in props if p["id"] not in CHECKS],
        "notes": "All checks go through /verif/check. Exit codes: 0 held on everything explored (KNOWN-FINDING lines possible), 1 VIOLATION, 2 inconclusive (build failure/timeout). Genuine defects found and repaired are listed in /verif/known_findings.json (status fixed) with replays under /verif/replays/fixed.",
    }
    if not man["not_applicable"]:
        del man["not_applicable"]
    with open(os.path.join(VERIF, "MANIFEST.json"), "w") as fh:
        json.dump(man, fh, indent=1)
    print("checks:", [c["property_id"] for c in checks])


if __name__ == "__main__":
    main()
