#!/usr/bin/env python3
import json,sys
s=json.load(open(sys.argv[1] if len(sys.argv)>1 else '/tmp/vdev/stats.json'))
print('cases',s['cases'],'nontrivial',s['nontrivial'])
for k,v in sorted(s['labels'].items()):
    if not k.startswith('op:') and not k.startswith('cap=') : print('  ',k,v)
print('  counters',s['counters'])
