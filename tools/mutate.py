#!/usr/bin/env python3
"""Mechanical mutation testing of the checks (dev helper, complements the hand-written seeded changes).

For N rounds: copy /repo HEAD to a scratch directory, apply ONE classical mutation operator at a random
site of the non-test library code, keep the mutant only if it compiles and the repository's own test
suite still passes, then run all 20 quick checks (reduced case counts) against it and record which
checks report a violation. Mutants no check reports are listed as survivors with their diff, for
manual triage (equivalent mutant, out of every property's scope, or a gap).

usage: mutate.py <rounds> <seed> <outfile> [scale]
"""
import json, os, random, re, shutil, subprocess, sys, time

ROUNDS, SEED, OUT = int(sys.argv[1]), int(sys.argv[2]), sys.argv[3]
SCALE = sys.argv[4] if len(sys.argv) > 4 else "0.25"
rnd = random.Random(SEED)
ENV = dict(os.environ, GOFLAGS="", GOPROXY="off", GOSUMDB="off", GOTOOLCHAIN="local")
VERIF = os.path.dirname(os.path.dirname(os.path.abspath(__file__)))  # the tree this script lives in (a vp snapshot or /verif)
PROPS = [c["property_id"] for c in json.load(open(os.path.join(VERIF, "MANIFEST.json")))["checks"]]

OPS = [
    (r"<=", "<"), (r">=", ">"), (r"(?<![<>=!:])<(?![<=-])", "<="), (r"(?<![<>=-])>(?![>=])", ">="),
    (r"==", "!="), (r"!=", "=="), (r"&&", "||"), (r"\|\|", "&&"),
    (r"\+ 1\b", "+ 0"), (r"- 1\b", "- 0"), (r"\+ 1\b", "+ 2"), (r"\btrue\b", "false"), (r"\bfalse\b", "true"),
    (r"\bcontinue\b", "break"), (r"\bbreak\b", "continue"), (r"\+\+", "--"),
    (r"\b0\b", "1"), (r"\b1\b", "0"), (r"\+=", "-="), (r"!(\w)", r"\1"),
]


def files(root):
    out = []
    for d in ["ecs", "generic", "listener", "filter", "ecs/event"]:
        for f in sorted(os.listdir(os.path.join(root, d))):
            p = os.path.join(d, f)
            if not f.endswith(".go") or f.endswith("_test.go") or "verif_hooks" in f or "_generate" in p:
                continue
            if os.path.isdir(os.path.join(root, p)):
                continue
            out.append(p)
    return out


def candidate_lines(src):
    lines = src.split("\n")
    out = []
    infunc = False
    for i, l in enumerate(lines):
        s = l.strip()
        if s.startswith("func "):
            infunc = True
        if not infunc or not s or s.startswith("//") or s.startswith("panic(") or "fmt." in s:
            continue
        out.append(i)
    return lines, out


def mutate(root):
    fl = files(root)
    weights = [os.path.getsize(os.path.join(root, f)) * (0.25 if "_generated" in f else 1.0) for f in fl]
    for _ in range(200):
        f = rnd.choices(fl, weights)[0]
        src = open(os.path.join(root, f)).read()
        lines, cand = candidate_lines(src)
        if not cand:
            continue
        i = rnd.choice(cand)
        line = lines[i]
        code = line.split("//")[0]
        kind = rnd.random()
        if kind < 0.15 and re.match(r"^\s+[\w.\[\]]+(\(.*\)|\s*[-+]?=\s*.+|\+\+|--)\s*$", code) and "defer" not in code and ":=" not in code:
            new = re.sub(r"\S.*", "_ = 0 // statement removed", line, count=1)
            desc = "remove statement"
        else:
            ops = [(p, r) for p, r in OPS if re.search(p, code)]
            if not ops:
                continue
            p, r = rnd.choice(ops)
            ms = list(re.finditer(p, code))
            m = rnd.choice(ms)
            new = code[:m.start()] + m.expand(r) + code[m.end():] + line[len(code):]
            desc = f"{m.group(0)} -> {m.expand(r)}"
        if new == line:
            continue
        lines[i] = new
        open(os.path.join(root, f), "w").write("\n".join(lines))
        return f, i + 1, desc, line.strip(), new.strip()
    return None


def run(cmd, cwd, timeout, env=ENV):
    try:
        p = subprocess.run(cmd, cwd=cwd, env=env, shell=True, capture_output=True, text=True, timeout=timeout)
        return p.returncode, p.stdout + p.stderr
    except subprocess.TimeoutExpired:
        return 124, "timeout"


log = open(OUT, "a")
for n in range(ROUNDS):
    root = f"/tmp/mutate-{os.getpid()}"
    shutil.rmtree(root, ignore_errors=True)
    os.makedirs(root)
    subprocess.run(f"cd /repo && git archive HEAD | tar -x -C {root}", shell=True, check=True)
    m = mutate(root)
    if not m:
        continue
    f, ln, desc, old, new = m
    rc, out = run("go build ./... && go vet -tags verif ./ecs/ >/dev/null 2>&1; go build -tags verif ./...", root, 120)
    if rc != 0:
        continue
    rc, out = run("go test -vet=off -count=1 ./... 2>&1 | grep -v '^ok\\|no test files' | head -3", root, 300)
    if out.strip():
        log.write(json.dumps({"n": n, "file": f, "line": ln, "op": desc, "old": old, "new": new, "result": "killed by the repository's suite"}) + "\n")
        log.flush()
        continue
    caught, incon = [], []
    t0 = time.time()
    env = dict(os.environ, VERIF_REPO=root, VERIF_SCALE=SCALE, VERIF_NO_EVIDENCE="1")
    for p in PROPS:
        rc, out = run(f"./check {p} 2>/dev/null | tail -1", VERIF, 900, env)
        if "VIOLATION" in out:
            caught.append(p)
            if len(caught) >= 2:
                break  # enough: the question is whether anything catches it
        elif "INCONCLUSIVE" in out or rc == 124:
            incon.append(p)
    rec = {"n": n, "file": f, "line": ln, "op": desc, "old": old, "new": new, "caught_by": caught, "inconclusive": incon,
           "result": "caught" if caught else "SURVIVED", "secs": round(time.time() - t0)}
    log.write(json.dumps(rec) + "\n")
    log.flush()
    shutil.rmtree(root, ignore_errors=True)
log.close()
