#!/bin/bash
# usage: mutant.sh <python-snippet-file editing files relative to the scratch repo> <props...>
# makes a scratch copy of /repo HEAD, applies the edit, runs the suite and the given quick checks
set -u
ED=$1; shift
SCR=/tmp/mutant-$$; rm -rf $SCR; mkdir -p $SCR; (cd /repo && git archive HEAD) | tar -x -C $SCR
(cd $SCR && python3 $ED) || { echo "edit failed"; rm -rf $SCR; exit 2; }
suite=$(cd $SCR && GOFLAGS= GOPROXY=off GOSUMDB=off GOTOOLCHAIN=local go test -vet=off -count=1 ./... 2>&1 | grep -v "^ok\|no test files" | head -3)
echo "suite failures: [$suite]"
HERE=$(cd $(dirname $0)/.. && pwd)
for P in "$@"; do echo "$P: $(cd $HERE && VERIF_REPO=$SCR ./check $P 2>/dev/null | tail -1)"; done
rm -rf $SCR
