#!/bin/bash
# Runs every seeded mutant against every claimed check (quick tier) on a scratch copy of the
# repository and prints a matrix. Meant for `vp run --with-repo -- tools/seed_matrix.sh`.
# usage: seed_matrix.sh [repo-to-copy (default $VP_RUN_REPO or /repo)] [seed ids...]
set -u
HERE=$(cd $(dirname $0)/.. && pwd)
SRC=${1:-${VP_RUN_REPO:-/repo}}; shift || true
IDS=${@:-$(ls $HERE/seeded)}
PROPS=$(python3 -c "import json;print(' '.join(c['property_id'] for c in json.load(open('$HERE/MANIFEST.json'))['checks']))")
SCR=/tmp/seedmx-$$
for id in $IDS; do
  rm -rf $SCR; mkdir -p $SCR; (cd $SRC && git archive HEAD) | tar -x -C $SCR
  if ! (cd $SCR && git init -q . 2>/dev/null; patch -p1 -s < $HERE/seeded/$id/patch.diff); then echo "MATRIX $id patch-failed"; continue; fi
  line="MATRIX $id"
  for P in $PROPS; do
    out=$(cd $HERE && VERIF_REPO=$SCR VERIF_PAR=${VERIF_PAR:-8} VERIF_SCALE=${VERIF_SCALE:-0.4} ./check $P 2>/dev/null | tail -1)
    case "$out" in VIOLATION*) r=V;; OK*) r=ok;; INCONCLUSIVE*) r=inc;; *) r="?";; esac
    line="$line $P=$r"
  done
  echo "$line"
done
rm -rf $SCR
