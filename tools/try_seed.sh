#!/bin/bash
# usage: try_seed.sh <seed-out-dir> <N> [props to run, default: the mutant's own property]
# 1. confirms in a scratch worktree: suite passes with the patch, demo fails with it, demo passes without
# 2. applies the patch to /repo, runs the quick check(s), reverts
set -u
D=$1; N=$2; shift 2
META=$D/meta$N.json; PATCH=$D/patch$N.diff
DEMO=$D/demo${N}_test.go
PROP=$(python3 -c "import json;print(json.load(open('$META'))['property'])")
LBL=$(basename $D)
DDIR=$(python3 -c "import json;print(json.load(open('$META')).get('demo_dir','ecs'))")
DTEST=$(python3 -c "import json;print(json.load(open('$META')).get('demo_test',''))")
DTAGS=$(python3 -c "import json;t=json.load(open('$META')).get('demo_tags','');print(('-tags '+(t if isinstance(t,str) else ','.join(t))) if t else '')")
WT=/tmp/seedcheck-$$
G="env GOFLAGS= GOPROXY=off GOSUMDB=off GOTOOLCHAIN=local"
git -C /repo worktree add -q --detach $WT HEAD || exit 2
cd $WT
if ! git apply $PATCH 2>/tmp/apply.err && ! git apply --3way $PATCH 2>>/tmp/apply.err; then echo "RESULT $LBL/$N patch-does-not-apply"; cat /tmp/apply.err | head -5; cd /; git -C /repo worktree remove --force $WT; exit 3; fi
git diff HEAD > /tmp/seed-rebased-$LBL-$N.diff
suite=$($G go test -vet=off -count=1 ./... 2>&1 | grep -v "^ok\|no test files" | head -5)
cp $DEMO $WT/$DDIR/zz_seed_demo_test.go
demo_with=$($G go test $DTAGS -vet=off -count=1 -run "^$DTEST\$" ./$DDIR/ 2>&1 | tail -1)
git reset -q --hard HEAD
demo_without=$($G go test $DTAGS -vet=off -count=1 -run "^$DTEST\$" ./$DDIR/ 2>&1 | tail -1)
cd /; git -C /repo worktree remove --force $WT; rm -rf $WT
echo "CONFIRM $LBL/$N suite_failures=[${suite}] demo_with_patch=[${demo_with}] demo_without=[${demo_without}]"
PROPS=${@:-$PROP}
# run the checks against a scratch copy of /repo with the patch applied (never touches /repo, so
# background runs that use /repo are not disturbed); set SEED_IN_REPO=1 to patch /repo itself
if [ "${SEED_IN_REPO:-0}" = "1" ]; then
  git -C /repo apply /tmp/seed-rebased-$LBL-$N.diff || { echo "cannot apply to /repo"; exit 3; }
  for P in $PROPS; do
    out=$(cd /verif && VERIF_NO_EVIDENCE=1 ./check $P 2>/dev/null | tail -1)
    echo "CHECK $LBL/$N on $P: $out"
  done
  git -C /repo checkout -- .
  git -C /repo status --short | head -3
else
  SCR=/tmp/seedrun-$$; rm -rf $SCR; mkdir -p $SCR; (cd /repo && git archive HEAD) | tar -x -C $SCR
  (cd $SCR && patch -p1 -s < /tmp/seed-rebased-$LBL-$N.diff) || { echo "cannot apply to scratch copy"; rm -rf $SCR; exit 3; }
  for P in $PROPS; do
    out=$(cd /verif && VERIF_REPO=$SCR ./check $P 2>/dev/null | tail -1)
    echo "CHECK $LBL/$N on $P: $out"
  done
  rm -rf $SCR
fi
