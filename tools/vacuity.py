#!/usr/bin/env python3
"""Prints the vacuity table of DESIGN 8.4 from /verif/evidence/*.json (dev helper)."""
import json, os
V = os.path.dirname(os.path.dirname(os.path.abspath(__file__)))
SEL = {
 "C01": ["zero-sized component", "world listener installed", "batch: >=2 source tables", "a relation target died", "wide case", "component larger than 64 KiB", "more than 32 archetype nodes"],
 "C02": ["batch creation with recycled+fresh ids", "world listener installed", "dump sent through encoding/json"],
 "C03": ["query: >=2 entities", "query through relation filter", "query: >=2 tables", "query through registered filter", "more than 125 registered filters"],
 "C05": ["relation filter kept registered", "a relation target died", "generic relation filter with a target queried", "WithRelation called again with another fixed target after a query"],
 "C06": ["a relation target died", "retired table reused", "world listener installed", "self-target"],
 "C07": ["registered relation filter", "more than 125 registered filters", "a relation target died"],
 "C08": ["batch: >=2 entities", "batch: >=2 source tables", "world listener installed"],
 "C09": ["restricted listener", "released query closed again", "call through an unregistered cached filter refused", "listener slot changed inside removal notification: after=0 batch=true", "listener slot changed inside removal notification: after=1 batch=true"],
 "C10": ["illegal generic call refused: class 0", "illegal generic call refused: class 15", "illegal query call: rel!bad", "call through an unregistered cached filter refused"],
 "C11": ["batch: >=2 source tables", "a relation target died"],
 "C12": ["partial selection", "Dispatch.AddListener mid-history"],
 "C13": ["a relation target died"],
 "C14": ["collections ran concurrently", "clone through Get pointers", "component overwritten", "pointer component removed", "pointer component removed by a batch call", "reset"],
 "C15": ["reset", "a relation target died", "resource registry full"],
 "C16": ["static type registered through ComponentID[T] (interface, pointer, func, map, ...)", "relation-ness asked through a generic filter", "registration under lock", "relation table retired", "Reset with registered types", "registration beyond the limit"],
 "C17": ["load into a reset world", "dump passed through JSON", "dump passed through indented JSON", "pool padded to a multiple of 64 ids at dump time", "delayed load"],
 "C18": ["builder modified/used after an earlier query", "events compared", "generic filter registered", "Map.Get with an absent component", "FilterN.Filter used with World.Query", "relation component added through With", "Exchange.Remove with a target", "Exchange.ExchangeBatch with a target", "two open queries with different targets", "illegal generic call refused: class 15"],
 "C20": ["many resource types", "op:addall", "op:lockedreset"],
}
print("| Check | cases | non-trivial | share of cases with selected labels |\n|---|---|---|---|")
for i in range(1, 21):
    pid = "C%02d" % i
    e = json.load(open(os.path.join(V, "evidence", pid + ".json")))
    cov = e.get("coverage", {})
    labels = cov.get("labels", {})
    cases = cov.get("generated_cases") or cov.get("evaluations") or 0
    nt = cov.get("nontrivial_cases_not_deduplicated") or 0
    parts = []
    for l in SEL.get(pid, []):
        hits = [v for k, v in labels.items() if k == l or k.startswith(l)]
        if hits:
            parts.append("%s %d%%" % (l.split(" (")[0], round(100.0 * max(hits) / max(cases, 1))))
        else:
            parts.append("%s 0%%" % l.split(" (")[0])
    print("| %s | %d | %d%% | %s |" % (pid, cases, round(100.0 * nt / max(cases, 1)), ", ".join(parts)))
