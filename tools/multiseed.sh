#!/bin/bash
# runs every claimed check at several seeds (quick tier) and prints one line per run
HERE=$(cd $(dirname $0)/.. && pwd); cd $HERE
PROPS=${PROPS:-$(python3 -c "import json;print(' '.join(c['property_id'] for c in json.load(open('MANIFEST.json'))['checks']))")}
for s in ${SEEDS:-2 3 4 5 6}; do for p in $PROPS; do echo "seed=$s $(VERIF_SEED=$s VERIF_PAR=${VERIF_PAR:-6} VERIF_NO_EVIDENCE=1 ./check $p --tier ${TIER:-quick} 2>&1 | tail -1)"; done; done
