#!/bin/bash
# dev helper: every replay of a repaired finding must FAIL on the tree just before its fix
# commit and PASS on the current tree.
set -u
WT=/tmp/verif-prefix-wt
git -C /repo worktree remove --force $WT 2>/dev/null
python3 - <<'PY' > /tmp/fixed-list.txt
import json
for f in json.load(open('/verif/known_findings.json'))['findings']:
    if f['status']=='fixed': print(f['commit'], f['replay_property'], f['replay'], f['key'])
PY
while read C P R K; do
  git -C /repo worktree add -q --detach $WT $C^ || exit 2
  cp /repo/ecs/verif_hooks.go $WT/ecs/verif_hooks.go 2>/dev/null
  VERIF_REPO=$WT /verif/check $P --replay $R > /tmp/pre.out 2>&1; pre=$?
  git -C /repo worktree remove --force $WT
  /verif/check $P --replay $R > /tmp/post.out 2>&1; post=$?
  echo "$K: before-fix exit=$pre (want 1), now exit=$post (want 0)"
done < /tmp/fixed-list.txt
rm -rf $WT
