#!/usr/bin/env python3
"""Copies confirmed seeded mutants from /tmp/seed-out/<prop>/ into /verif/seeded/<prop>-<n>/ (dev helper).
usage: collect_seeds.py <results-file> ; results-file holds the CONFIRM/CHECK lines of tools/try_seed.sh"""
import json, os, re, shutil, sys
res = open(sys.argv[1]).read()
conf = {}
for m in re.finditer(r"CONFIRM (\w+)/(\d) suite_failures=\[(.*?)\] demo_with_patch=\[(.*?)\] demo_without=\[(.*?)\]", res):
    conf[(m.group(1), m.group(2))] = dict(suite=m.group(3), with_patch=m.group(4), without=m.group(5))
checks = {}
for m in re.finditer(r"CHECK (\w+)/(\d) on (C\d+): (.*)", res):
    checks.setdefault((m.group(1), m.group(2)), {})[m.group(3)] = m.group(4)
for (p, n), c in sorted(conf.items()):
    ok = c["suite"] == "" and c["with_patch"].startswith("FAIL") and c["without"].startswith("ok")
    src = f"/tmp/seed-out/{p}"
    dst = f"/verif/seeded/{p}-{n}"
    if not ok:
        print("NOT CONFIRMED", p, n, c)
        continue
    os.makedirs(dst, exist_ok=True)
    reb = f"/tmp/seed-rebased-{p}-{n}.diff"
    shutil.copy(reb if os.path.exists(reb) else f"{src}/patch{n}.diff", f"{dst}/patch.diff")
    shutil.copy(f"{src}/demo{n}_test.go", f"{dst}/demo_test.go")
    meta = json.load(open(f"{src}/meta{n}.json"))
    old = {}
    if os.path.exists(f"{dst}/meta.json"):
        old = json.load(open(f"{dst}/meta.json"))
    out = {
        "id": f"{p}-{n}",
        "breaks_property": meta.get("property", p),
        "summary": meta.get("summary"),
        "needs_to_manifest": meta.get("needs_to_manifest"),
        "files_changed": meta.get("files_changed"),
        "demo": {"file": "demo_test.go", "place_in": meta.get("demo_dir", "ecs"), "test": meta.get("demo_test")},
        "source": "written by a sub-agent that saw only the property text and a scratch worktree of /repo",
        "confirmed_by_me": {
            "how": "tools/try_seed.sh: scratch worktree of /repo HEAD; git apply patch.diff; `GOFLAGS= go test -vet=off -count=1 ./...`; demo copied into the package dir and run with -run <test>; then reverted and demo re-run",
            "suite_with_patch": "all packages ok",
            "demo_with_patch": "FAIL",
            "demo_without_patch": "ok",
        },
        "check_results": {**old.get("check_results", {}), **{k: v for k, v in checks.get((p, n), {}).items()}},
    }
    json.dump(out, open(f"{dst}/meta.json", "w"), indent=1)
    print("stored", dst, out["check_results"])
