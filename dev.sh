#!/bin/bash
# dev helper: rebuild the harness and run one test with rapid flags; prints the shrunk history.
# usage: dev.sh <TestName> [checks] [seed] [extra env assignments...]
export GOFLAGS=-mod=mod GOPROXY=off GOSUMDB=off GOTOOLCHAIN=local
T=$1; N=${2:-2000}; S=${3:-7}; shift 3 2>/dev/null
mkdir -p /tmp/vdev && cd /verif/harness && go test -c -tags ${VTAGS:-verif} -o /tmp/vdev/props.test ./props || exit 2
cd /tmp/vdev && rm -f fail.json stats.json
env "$@" VERIF_STATS_OUT=/tmp/vdev/stats.json VERIF_FAIL_OUT=/tmp/vdev/fail.json ./props.test -test.run "^$T\$" -rapid.checks=$N -rapid.seed=$S -rapid.steps=${STEPS:-40} -rapid.nofailfile -test.timeout 600s 2>&1 | grep -v "rapid\] draw" | tail -${TAIL:-6}
if [ -f fail.json ]; then python3 - <<'PY'
import json
r=json.load(open('/tmp/vdev/fail.json'))
print(r.get('message')); print(json.dumps(r.get('universe')))
for o in r.get('ops',[]): print(json.dumps(o))
PY
fi
