package props

import (
	"fmt"
	"testing"

	"verifharness/core"

	"pgregory.net/rapid"
)

// simProp describes a property check that drives a Sim with generated histories.
type simProp struct {
	ID               string
	Cfg              core.SimConfig
	Mix              core.Mix
	Lim              core.Limits
	Rule             string
	MaxPlain, MaxRel int
	MinRel           int
	// CaseCfg may derive a per-case configuration (drawn) from the base configuration.
	CaseCfg func(rt *rapid.T, cfg core.SimConfig, u *core.Universe) core.SimConfig
	// Setup may adjust generator and sim before the history starts.
	Setup func(rt *rapid.T, sim *core.Sim, g *core.Gen)
	// Observe is called after every applied op; it labels the case and decides non-triviality.
	Observe func(tr *tracker, op *core.Op)
	// Finish is called at the end of a case that neither failed nor was aborted.
	Finish func(rt *rapid.T, sim *core.Sim, tr *tracker)
	// AtEnd runs after all cases (stats still open).
	AtEnd func(st *core.Stats)
	// Replay overrides the default replay (apply the ops to a fresh Sim).
	Replay func(t *testing.T, r *core.Replay, st *core.Stats)
	// Draw overrides the default op generator (g.Draw); it may return several ops.
	Draw func(rt *rapid.T, sim *core.Sim, g *core.Gen) []core.Op
	// Once runs before the generated cases (enumerated parts), in shard 0 only.
	Once func(t *testing.T, st *core.Stats)
	// NoListener: never install a listener (default: where the configuration leaves it open, half of
	// the cases run with a recorder).
	NoListener bool
}

// tracker keeps per-case facts used for labels and the non-triviality rules.
type tracker struct {
	sim      *core.Sim
	cs       *core.Case
	step     int
	written  map[int]int // ordinal -> step of the last non-zero value write (alive entities)
	flags    map[string]bool
	counters map[string]int
}

func (tr *tracker) flag(name string) { tr.flags[name] = true }

func isStructural(k string) bool {
	switch k {
	case core.OpSet, core.OpWriteGet, core.OpWriteQuery, core.OpQuery, core.OpRegister, core.OpUnregister, core.OpGC:
		return false
	}
	return true
}

func isWrite(op *core.Op) bool {
	switch op.K {
	case core.OpSet, core.OpWriteGet, core.OpWriteQuery:
		return len(op.Tok) > 0 && op.Tok[0] != 0
	case core.OpNewWith, core.OpAssign:
		for _, t := range op.Tok {
			if t != 0 {
				return true
			}
		}
	case core.OpBuildNew, core.OpBuildBatch, core.OpBuildAdd:
		if op.Vals {
			for _, t := range op.Tok {
				if t != 0 {
					return true
				}
			}
		}
	}
	return false
}

func labelUniverse(cs *core.Case, u *core.Universe) {
	mx := u.MaxID()
	switch {
	case mx >= 240:
		cs.Label("ids: max>=240")
	case mx >= 192:
		cs.Label("ids: max>=192")
	case mx >= 128:
		cs.Label("ids: max>=128")
	case mx >= 64:
		cs.Label("ids: max>=64")
	default:
		cs.Label("ids: max<64")
	}
	cs.Label(fmt.Sprintf("cap=%d", u.Cap))
	for c := 0; c < u.N(); c++ {
		if u.Spec(c).Size == 0 {
			cs.Label("zero-sized component")
			break
		}
	}
	for c := 0; c < u.N(); c++ {
		if u.Spec(c).Size > 65535 {
			cs.Label("component larger than 64 KiB")
		}
	}
	if u.FullRes {
		cs.Label("resource registry full")
	}
}

func runSimProp(t *testing.T, p *simProp) {
	withStats(t, p.ID, func(st *core.Stats) {
		st.Rule = p.Rule
		if path, ok := replaying(); ok {
			replaySim(t, path, p, st)
			return
		}
		if p.MaxPlain == 0 {
			p.MaxPlain = 6
		}
		thorough := core.Tier() == "thorough"
		if thorough {
			// deeper tier: larger universes (the driver also doubles the average history length)
			p.MaxPlain += 3
			if p.MaxPlain > core.HugePlain {
				p.MaxPlain = core.HugePlain
			}
			if p.MaxRel > 0 && p.MaxRel < len(core.RelPool) {
				p.MaxRel++
			}
		}
		if p.Once != nil && core.EnvInt("VERIF_SHARD", 0) == 0 {
			p.Once(t, st)
		}
		rapid.Check(t, func(rt *rapid.T) {
			u := core.GenUniverse(rt, p.MaxPlain, p.MinRel, p.MaxRel)
			cs := st.Begin()
			defer cs.End()
			labelUniverse(cs, u)
			cfg := p.Cfg
			if p.CaseCfg != nil {
				cfg = p.CaseCfg(rt, cfg, u)
			} else if cfg.Listener == "" && !p.NoListener {
				// every structural path has a branch for "a listener is installed": where the check does
				// not care about events, half of the cases run with a recorder subscribed to everything
				if rapid.Bool().Draw(rt, "withListener") {
					cfg.Listener = "full"
					cs.Label("world listener installed")
				}
			}
			sim := core.NewSim(rt, cfg, u, st, cs)
			g := &core.Gen{M: sim.M, Mix: p.Mix, Lim: p.Lim}
			if g.Lim.MaxAlive == 0 {
				g.Lim = core.DefaultLimits
				// one case in twelve is "wide": room for a fanout of > 32 targets in one relation node
				wideOdds := 11
				if thorough {
					wideOdds = 3
				}
				if len(u.Rel) > 0 && rapid.IntRange(0, wideOdds).Draw(rt, "wide") == 0 {
					g.Wide = true
					g.BigBatch = true // batch creations of up to 140 entities (beyond one default capacity increment)
					g.Lim.MaxAlive, g.Lim.MaxTotal = 140, 400
					cs.Label("wide case")
				}
			}
			tr := &tracker{sim: sim, cs: cs, written: map[int]int{}, flags: map[string]bool{}, counters: map[string]int{}}
			if p.Setup != nil {
				p.Setup(rt, sim, g)
			}
			// about one case in 40 (of the checks that register filters at all) starts with more registered
			// filters than the cache's bookkeeping reserves at once (128)
			if p.Mix[core.OpRegister] > 0 && rapid.IntRange(0, 999).Draw(rt, "manyFilters")%33 == 17 {
				g.Lim.MaxSlots = 140
				n := 126 + rapid.IntRange(0, 10).Draw(rt, "nFilters")
				for i := 0; i < n && !sim.Done(); i++ {
					if op, ok := g.DrawKind(rt, core.OpRegister); ok {
						sim.Apply(op)
					}
				}
				cs.Label("more than 125 registered filters")
			}
			cs.Sample(func() any {
				ops := make([]string, len(sim.Ops))
				for i := range sim.Ops {
					ops[i] = sim.Ops[i].Describe()
				}
				return map[string]any{"universe": u, "ops": ops}
			})
			rt.Repeat(map[string]func(*rapid.T){
				"op": func(rt *rapid.T) {
					if sim.Done() {
						return
					}
					var ops []core.Op
					if p.Draw != nil {
						ops = p.Draw(rt, sim, g)
					} else if op, ok := g.Draw(rt); ok {
						ops = []core.Op{op}
					}
					for _, op := range ops {
						sim.Apply(op)
						tr.step++
						if sim.Done() {
							return
						}
						cs.Label("op:" + op.K)
						if p.Observe != nil {
							p.Observe(tr, &sim.Ops[len(sim.Ops)-1])
						}
					}
				},
			})
			if !sim.Done() && p.Finish != nil {
				p.Finish(rt, sim, tr)
			}
			if sim.Aborted {
				cs.Label("aborted (out of scope)")
			}
		})
		if p.AtEnd != nil {
			p.AtEnd(st)
		}
	})
}

// probeFail reports the failure of an enumerated (non-generated) part of a check: the replay file
// names the probe, and replaying it runs the enumerated part again.
func probeFail(t *testing.T, prop, probe, msg string) {
	core.WriteFail(map[string]any{"property": prop, "build": core.BuildName(), "probe": probe, "message": msg})
	t.Fatalf("%s violated: %s", prop, msg)
}

func replaySim(t *testing.T, path string, p *simProp, st *core.Stats) {
	var pr struct {
		Probe string `json:"probe"`
	}
	if err := core.ReadReplay(path, &pr); err == nil && pr.Probe != "" {
		if p.Once == nil {
			t.Fatalf("replay names probe %q but the check has no enumerated part", pr.Probe)
		}
		p.Once(t, st)
		return
	}
	var r core.Replay
	if err := core.ReadReplay(path, &r); err != nil {
		t.Fatalf("cannot read replay: %v", err)
	}
	if r.Universe == nil {
		t.Fatalf("replay file has no universe")
	}
	if err := r.Universe.Validate(); err != nil {
		t.Fatalf("replay: %v", err)
	}
	if p.Replay != nil {
		p.Replay(t, &r, st)
		return
	}
	cfg := p.Cfg
	if cfg.Listener == "" {
		cfg.Listener = r.Listener
	}
	sim := core.NewSim(t, cfg, r.Universe, st, nil)
	for _, op := range r.Ops {
		sim.Apply(op)
		if sim.Done() {
			break
		}
	}
	if sim.Aborted {
		t.Logf("replay ended by an out-of-scope finding")
	}
}
