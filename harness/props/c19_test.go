package props

// C19 — worlds are isolated and can be driven concurrently, one goroutine each.

import (
	"encoding/json"
	"fmt"
	"os"
	"sync"
	"testing"

	"verifharness/core"

	"pgregory.net/rapid"
)

type c19World struct {
	Universe *core.Universe `json:"universe"`
	Ops      []core.Op      `json:"ops"`
}

type c19Case struct {
	Property string     `json:"property"`
	Build    string     `json:"build"`
	Message  string     `json:"message"`
	Worlds   []c19World `json:"worlds"`
	Order    []int      `json:"order"` // interleaving of the sequential phase: world index per step
}

func c19Config() core.SimConfig {
	return core.SimConfig{
		Prop:     "C19",
		Owned:    core.Own("isolation"),
		Verify:   core.FullVerify,
		Listener: "full",
		Trace:    true,

		TraceNoShape: true,
	}
}

// saltCounter hands out salts: every concurrent run registers component types the process has
// never seen (a per-process cache keyed by type is then written concurrently).
var saltCounter = 0

// quietFailer collects a failure instead of aborting the test (used off the test goroutine).
type quietFailer struct {
	mu  sync.Mutex
	msg string
}

type failSentinel struct{}

func (q *quietFailer) Fatalf(format string, args ...any) {
	q.mu.Lock()
	if q.msg == "" {
		q.msg = fmt.Sprintf(format, args...)
	}
	q.mu.Unlock()
	panic(failSentinel{})
}
func (q *quietFailer) Logf(string, ...any) {}

// runAlone executes a world's history on a fresh world and returns the trace.
func runAlone(w *c19World) ([]string, string) {
	qf := &quietFailer{}
	sim := core.NewSim(qf, c19Config(), w.Universe, nil, nil)
	func() {
		defer func() {
			if r := recover(); r != nil {
				if _, ok := r.(failSentinel); !ok {
					qf.msg = fmt.Sprintf("panic: %v", r)
				}
			}
		}()
		for _, op := range w.Ops {
			sim.Apply(op)
			if sim.Done() {
				return
			}
		}
	}()
	if sim.Aborted {
		return nil, "aborted"
	}
	return sim.Trace, qf.msg
}

func firstDiff(a, b []string) string {
	for i := range a {
		if i >= len(b) {
			return fmt.Sprintf("trace stops after %d of %d ops", len(b), len(a))
		}
		if a[i] != b[i] {
			return fmt.Sprintf("op %d: alone\n%s\nnow\n%s", i, a[i], b[i])
		}
	}
	if len(b) > len(a) {
		return fmt.Sprintf("trace has %d ops, alone it had %d", len(b), len(a))
	}
	return ""
}

// checkGroup runs the sequential-interleaving and the concurrent phase for a group of worlds whose
// alone-traces are given. Returns a violation message or "".
func checkGroup(c *c19Case, alone [][]string) string {
	n := len(c.Worlds)
	// --- sequential interleaving: no operation on one world changes anything in another
	sims := make([]*core.Sim, n)
	qfs := make([]*quietFailer, n)
	next := make([]int, n)
	for i := range sims {
		qfs[i] = &quietFailer{}
		sims[i] = core.NewSim(qfs[i], c19Config(), c.Worlds[i].Universe, nil, nil)
	}
	step := func(i int) (msg string) {
		defer func() {
			if r := recover(); r != nil {
				if _, ok := r.(failSentinel); ok {
					msg = fmt.Sprintf("world %d, interleaved with the others in one goroutine, fails where it passed alone: %s", i, qfs[i].msg)
				} else {
					msg = fmt.Sprintf("world %d panicked while interleaved: %v", i, r)
				}
			}
		}()
		shapes := make([]string, n)
		okBefore := make([]bool, n)
		opts := core.VerifyOpts{Values: true, Relations: true, Dead: true}
		for j := range sims {
			if j != i {
				shapes[j] = core.Shape(sims[j].B.W)
				// a world that already deviates from its model (another property's finding ended its
				// history) cannot be blamed on this step
				okBefore[j] = !sims[j].Done() && sims[j].B.Verify(sims[j].M, opts) == nil
			}
		}
		sims[i].Apply(c.Worlds[i].Ops[next[i]])
		next[i]++
		for j := range sims {
			if j == i {
				continue
			}
			if s := core.Shape(sims[j].B.W); s != shapes[j] {
				return fmt.Sprintf("an operation on world %d (%s) changed the hidden state of world %d", i, c.Worlds[i].Ops[next[i]-1].Describe(), j)
			}
			if !okBefore[j] {
				continue
			}
			if err := sims[j].B.Verify(sims[j].M, opts); err != nil {
				return fmt.Sprintf("an operation on world %d (%s) changed world %d: %v", i, c.Worlds[i].Ops[next[i]-1].Describe(), j, err)
			}
		}
		return ""
	}
	for _, i := range c.Order {
		i %= n
		if next[i] >= len(c.Worlds[i].Ops) || sims[i].Done() {
			continue
		}
		if msg := step(i); msg != "" {
			return msg
		}
	}
	for i := range sims {
		for next[i] < len(c.Worlds[i].Ops) && !sims[i].Done() {
			if msg := step(i); msg != "" {
				return msg
			}
		}
		if d := firstDiff(alone[i], sims[i].Trace); d != "" && !sims[i].Aborted {
			return fmt.Sprintf("world %d behaves differently when other worlds are used in between (same goroutine): %s", i, d)
		}
	}
	// --- concurrent: one goroutine per world, each on fresh Go types of the same shapes
	traces := make([][]string, n)
	msgs := make([]string, n)
	var wg sync.WaitGroup
	start := make(chan struct{})
	fresh := make([]c19World, n)
	for i := 0; i < n; i++ {
		saltCounter++
		fresh[i] = c19World{Universe: c.Worlds[i].Universe.WithSalt(saltCounter), Ops: c.Worlds[i].Ops}
	}
	for i := 0; i < n; i++ {
		wg.Add(1)
		go func(i int) {
			defer wg.Done()
			<-start
			traces[i], msgs[i] = runAlone(&fresh[i])
		}(i)
	}
	close(start)
	wg.Wait()
	for i := 0; i < n; i++ {
		if msgs[i] == "aborted" {
			continue
		}
		if msgs[i] != "" {
			return fmt.Sprintf("world %d, driven concurrently with %d others, fails where it passed alone: %s", i, n-1, msgs[i])
		}
		if d := firstDiff(alone[i], traces[i]); d != "" {
			return fmt.Sprintf("world %d behaves differently when %d other worlds are driven concurrently: %s", i, n-1, d)
		}
	}
	return ""
}

func writeCurrentCase(c *c19Case) { writeCurrentCaseAny(c) }

func writeCurrentCaseAny(c any) {
	// for the driver: if the process dies (runtime fatal error, race report), this is the case
	if os.Getenv("VERIF_FAIL_OUT") == "" {
		return
	}
	b, _ := json.Marshal(c)
	_ = os.WriteFile("current-case.json", b, 0o644)
}

func TestC19(t *testing.T) {
	mix := fullMix()
	mix[core.OpRegister] = 3
	mix[core.OpReset] = 1
	mix[core.OpResAdd] = 2
	mix[core.OpResRemove] = 1
	mix[core.OpQuery] = 4
	mix["useRegistered"] = 30
	withStats(t, "C19", func(st *core.Stats) {
		st.Rule = "groups of 2-6 worlds, each with its own generated universe (same type pools, different selections, ID placements and registration orders) and its own generated history over the full op mix (structural ops, batch ops, relations, cache, resources, listener, Reset). Every history is first run alone (trace: handles, counts, iteration orders, events, dumps, hidden-state digest). Then (a) the histories are interleaved step by step in ONE goroutine in a generated order, and after every step the hidden-state digest and the observables of all OTHER worlds must be unchanged and every world's trace must equal its alone-trace; (b) the histories run concurrently, one goroutine per world behind a start barrier, each world on fresh Go types of the same shapes (types the process has never registered before), in a binary built with the race detector: no race report, no runtime fatal error, and every world's trace equals its alone-trace; non-trivial = a group with >= 2 worlds that each execute >= 5 structural ops"
		if path, ok := replaying(); ok {
			var c c19Case
			if err := core.ReadReplay(path, &c); err != nil {
				t.Fatalf("cannot read replay: %v", err)
			}
			if c.Worlds == nil {
				var wrapped struct {
					Case c19Case `json:"case"`
				}
				_ = core.ReadReplay(path, &wrapped)
				c = wrapped.Case
			}
			alone := make([][]string, len(c.Worlds))
			for i := range c.Worlds {
				alone[i], _ = runAlone(&c.Worlds[i])
			}
			for rep := 0; rep < 20; rep++ {
				if msg := checkGroup(&c, alone); msg != "" {
					t.Fatalf("C19 violated: %s", msg)
				}
			}
			return
		}
		rapid.Check(t, func(rt *rapid.T) {
			c := &c19Case{Property: "C19", Build: core.BuildName()}
			n := rapid.IntRange(2, 6).Draw(rt, "nworlds")
			alone := make([][]string, n)
			cs := st.Begin()
			defer cs.End()
			busy := 0
			for i := 0; i < n; i++ {
				u := core.GenUniverse(rt, 4, 0, 2)
				sim := core.NewSim(rt, c19Config(), u, nil, nil)
				g := &core.Gen{M: sim.M, Mix: mix, Lim: core.Limits{MaxAlive: 25, MaxTotal: 80, MaxBatch: 5, MaxSlots: 3}}
				nops := rapid.IntRange(3, 25).Draw(rt, "nops")
				structural := 0
				for k := 0; k < nops && !sim.Done(); k++ {
					op, ok := g.Draw(rt)
					if !ok {
						break
					}
					sim.Apply(op)
					if isStructural(op.K) {
						structural++
					}
				}
				if sim.Done() {
					// out of scope (another property's finding): leave this world's history as far as it got
					cs.Label("a world's own history was cut short")
				}
				if structural >= 5 {
					busy++
				}
				c.Worlds = append(c.Worlds, c19World{Universe: u, Ops: append([]core.Op{}, sim.Ops...)})
				alone[i] = sim.Trace
				for _, op := range sim.Ops {
					cs.Feed(op.Describe())
				}
			}
			total := 0
			for _, w := range c.Worlds {
				total += len(w.Ops)
			}
			for k := 0; k < total; k++ {
				c.Order = append(c.Order, rapid.IntRange(0, n-1).Draw(rt, "turn"))
			}
			if busy >= 2 {
				cs.NonTrivial()
			}
			cs.Label(fmt.Sprintf("worlds=%d", n))
			cs.Sample(func() any {
				out := []any{}
				for _, w := range c.Worlds {
					ops := []string{}
					for i := range w.Ops {
						ops = append(ops, w.Ops[i].Describe())
					}
					out = append(out, map[string]any{"universe": w.Universe, "ops": ops})
				}
				return out
			})
			writeCurrentCase(c)
			if msg := checkGroup(c, alone); msg != "" {
				c.Message = msg
				core.WriteFail(c)
				rt.Fatalf("C19 violated: %s", msg)
			}
		})
	})
}
