package props

// C14 — components holding pointers are safe under garbage collection.
//
// Three parts:
//  (t) call-site templates: every way of supplying a component value, from call sites whose
//      component literal and referent do / do not escape by themselves; after the call returns
//      the stack is clobbered and the referent read back (deterministic, no GC needed).
//  (a) retention: histories of moves/removals/growth on entities whose components reference
//      heap objects reachable only through them, while goroutines force garbage collections;
//      a referent that is finalized or loses its token while its component exists is a violation.
//  (b) release: after the component/entity is removed or the world reset, the referents'
//      finalizers run (deterministic flush protocol).

import (
	"encoding/json"
	"fmt"
	"os"
	"runtime"
	"sync"
	"sync/atomic"
	"testing"
	"unsafe"

	"verifharness/core"

	"github.com/mlange-42/arche/ecs"
	"github.com/mlange-42/arche/generic"
	"pgregory.net/rapid"
)

type payload struct {
	Tok uint64
	Pad [5]uint64
}

// pointer-holding component types
type (
	PPtr struct{ P *payload }
	PSli struct{ S []payload }
	PMap struct{ M map[uint64]*payload }
	PStr struct {
		A uint32
		S string
		P *payload
	}
	PRel struct {
		ecs.Relation
		P *payload
	}
	PPlain struct{ V uint64 }
	PTag   struct{}
	// components whose ONLY traced field is of one kind
	POnlyStr   struct{ S string }
	POnlyIface struct{ I any }
	POnlyFunc  struct{ F func() uint64 }
)

// ---- bookkeeping of referents ----------------------------------------------------------------

type refBook struct {
	mu        sync.Mutex
	finalized map[uint64]bool
	live      map[uint64]bool // tokens that must still be alive
	early     []uint64        // tokens finalized while live
	next      uint64
}

func newRefBook() *refBook {
	return &refBook{finalized: map[uint64]bool{}, live: map[uint64]bool{}, next: 1}
}

// newToken registers a new referent token as live.
func (b *refBook) newToken() uint64 {
	b.mu.Lock()
	tok := b.next
	b.next++
	b.live[tok] = true
	b.mu.Unlock()
	return tok
}

// fill writes the token pattern and attaches the finalizer to a heap-allocated referent.
func (b *refBook) fill(p *payload, tok uint64, finalizer bool) {
	p.Tok = tok
	for i := range p.Pad {
		p.Pad[i] = tok*31 + uint64(i)
	}
	if !finalizer {
		return
	}
	runtime.SetFinalizer(p, func(q *payload) {
		b.mu.Lock()
		b.finalized[tok] = true
		if b.live[tok] {
			b.early = append(b.early, tok)
		}
		b.mu.Unlock()
	})
}

// newPayload allocates a referent on the heap with a finalizer; the book keeps only its token.
//
//go:noinline
func (b *refBook) newPayload() (*payload, uint64) {
	tok := b.newToken()
	p := &payload{}
	b.fill(p, tok, true)
	return p, tok
}

// finalizeBlock attaches the bookkeeping finalizer to a raw memory block.
func (b *refBook) finalizeBlock(first *byte, tok uint64) {
	runtime.SetFinalizer(first, func(*byte) {
		b.mu.Lock()
		b.finalized[tok] = true
		if b.live[tok] {
			b.early = append(b.early, tok)
		}
		b.mu.Unlock()
	})
}

func (b *refBook) release(tok uint64) {
	b.mu.Lock()
	delete(b.live, tok)
	b.mu.Unlock()
}

func checkPayload(p *payload, tok uint64) string {
	if p == nil {
		return fmt.Sprintf("referent with token %d: pointer is nil", tok)
	}
	if p.Tok != tok {
		return fmt.Sprintf("referent with token %d now reads token %d (%#x)", tok, p.Tok, p.Tok)
	}
	for i := range p.Pad {
		if p.Pad[i] != tok*31+uint64(i) {
			return fmt.Sprintf("referent with token %d is damaged: pad[%d]=%#x", tok, i, p.Pad[i])
		}
	}
	return ""
}

// flushFinalizers runs the collector until all finalizers queued so far have run: a sentinel
// object allocated after the garbage is finalized after it (finalizers run in queue order in
// one goroutine); three rounds because an object is only freed in the cycle after its finalizer ran.
func flushFinalizers() {
	for round := 0; round < 3; round++ {
		runtime.GC()
		done := make(chan struct{})
		s := new([2]uint64)
		runtime.SetFinalizer(s, func(*[2]uint64) { close(done) })
		s = nil
		runtime.GC()
		<-done
	}
}

// ---- part (t): call-site templates --------------------------------------------------------------

//go:noinline
func clobberStack(n int) uint64 {
	var buf [48]uint64
	for i := range buf {
		buf[i] = 0xDEADBEEFDEADBEEF
	}
	if n > 0 {
		return clobberStack(n-1) ^ buf[n%48]
	}
	return buf[7]
}

type tplWorld struct {
	w                *ecs.World
	ptr, sli, str, r ecs.ID
	plain            ecs.ID
}

// Each template supplies a component whose referent is a LOCAL of the template function. Whether
// that local survives the return is the library's business: the documentation only says the
// passed pointer is not a reference to the stored memory, not that what the component points to
// may be lost.

//go:noinline
func tplSetLocal(t *tplWorld, e ecs.Entity, tok uint64) {
	pl := payload{Tok: tok}
	c := PPtr{P: &pl}
	t.w.Set(e, t.ptr, &c)
}

//go:noinline
func tplSetLiteral(t *tplWorld, e ecs.Entity, tok uint64) {
	t.w.Set(e, t.ptr, &PPtr{P: &payload{Tok: tok}})
}

//go:noinline
func tplAssignLiteral(t *tplWorld, e ecs.Entity, tok uint64) {
	t.w.Assign(e, ecs.Component{ID: t.ptr, Comp: &PPtr{P: &payload{Tok: tok}}})
}

//go:noinline
func tplNewEntityWith(t *tplWorld, tok uint64) ecs.Entity {
	pl := payload{Tok: tok}
	return t.w.NewEntityWith(ecs.Component{ID: t.ptr, Comp: &PPtr{P: &pl}}, ecs.Component{ID: t.plain, Comp: &PPlain{V: 1}})
}

//go:noinline
func tplBuilderNew(t *tplWorld, tok uint64) ecs.Entity {
	return ecs.NewBuilderWith(t.w, ecs.Component{ID: t.ptr, Comp: &PPtr{P: &payload{Tok: tok}}}).New()
}

//go:noinline
func tplBuilderBatch(t *tplWorld, tok uint64) ecs.Entity {
	pl := payload{Tok: tok}
	q := ecs.NewBuilderWith(t.w, ecs.Component{ID: t.ptr, Comp: &PPtr{P: &pl}}).NewBatchQ(2)
	q.Next()
	e := q.Entity()
	q.Close()
	return e
}

//go:noinline
func tplBuilderAdd(t *tplWorld, e ecs.Entity, tok uint64) {
	ecs.NewBuilderWith(t.w, ecs.Component{ID: t.ptr, Comp: &PPtr{P: &payload{Tok: tok}}}).Add(e)
}

//go:noinline
func tplGenericSet(t *tplWorld, e ecs.Entity, tok uint64) {
	m := generic.NewMap[PPtr](t.w)
	pl := payload{Tok: tok}
	m.Set(e, &PPtr{P: &pl})
}

//go:noinline
func tplGenericNewWith(t *tplWorld, tok uint64) ecs.Entity {
	m := generic.NewMap1[PPtr](t.w)
	return m.NewWith(&PPtr{P: &payload{Tok: tok}})
}

//go:noinline
func tplGenericAssign(t *tplWorld, e ecs.Entity, tok uint64) {
	m := generic.NewMap1[PPtr](t.w)
	pl := payload{Tok: tok}
	m.Assign(e, &PPtr{P: &pl})
}

//go:noinline
func tplSliceLocal(t *tplWorld, e ecs.Entity, tok uint64) {
	arr := [3]payload{{Tok: tok}, {Tok: tok}, {Tok: tok}}
	t.w.Set(e, t.sli, &PSli{S: arr[:]})
}

//go:noinline
func tplStringLocal(t *tplWorld, e ecs.Entity, tok uint64) {
	b := []byte(fmt.Sprintf("token-%d-token-%d-token", tok, tok))
	pl := payload{Tok: tok}
	t.w.Set(e, t.str, &PStr{A: 7, S: string(b), P: &pl})
}

//go:noinline
func tplGetPointerWrite(t *tplWorld, e ecs.Entity, tok uint64) {
	// writing through the Get pointer is an ordinary Go store: must always be fine
	pl := payload{Tok: tok}
	(*PPtr)(t.w.Get(e, t.ptr)).P = &pl
}

var templateNames = []string{"World.Set(local)", "World.Set(literal)", "World.Assign(literal)", "World.NewEntityWith(local)", "Builder.New(literal)",
	"Builder.NewBatchQ(local)", "Builder.Add(literal)", "generic.Map.Set(local)", "generic.Map1.NewWith(literal)", "generic.Map1.Assign(local)",
	"World.Set(slice of local array)", "World.Set(string+pointer local)", "write through Get pointer"}

// runTemplate executes template k and returns a violation message or "".
func runTemplate(k int, tok uint64, clobber int, gc bool) string {
	w := ecs.NewWorld(ecs.NewConfig().WithCapacityIncrement(2))
	t := &tplWorld{w: &w}
	t.ptr, t.sli, t.str = ecs.ComponentID[PPtr](&w), ecs.ComponentID[PSli](&w), ecs.ComponentID[PStr](&w)
	t.plain = ecs.ComponentID[PPlain](&w)
	var e ecs.Entity
	name := templateNames[k%len(templateNames)]
	switch k % len(templateNames) {
	case 0:
		e = w.NewEntity(t.ptr)
		tplSetLocal(t, e, tok)
	case 1:
		e = w.NewEntity(t.ptr, t.plain)
		tplSetLiteral(t, e, tok)
	case 2:
		e = w.NewEntity(t.plain)
		tplAssignLiteral(t, e, tok)
	case 3:
		e = tplNewEntityWith(t, tok)
	case 4:
		e = tplBuilderNew(t, tok)
	case 5:
		e = tplBuilderBatch(t, tok)
	case 6:
		e = w.NewEntity(t.plain)
		tplBuilderAdd(t, e, tok)
	case 7:
		e = w.NewEntity(t.ptr)
		tplGenericSet(t, e, tok)
	case 8:
		e = tplGenericNewWith(t, tok)
	case 9:
		e = w.NewEntity()
		tplGenericAssign(t, e, tok)
	case 10:
		e = w.NewEntity(t.sli)
		tplSliceLocal(t, e, tok)
		clobberStack(clobber)
		if gc {
			runtime.GC()
		}
		s := (*PSli)(w.Get(e, t.sli)).S
		if len(s) != 3 || s[0].Tok != tok || s[2].Tok != tok {
			return fmt.Sprintf("%s: the slice's backing array is lost after the call returned: %v", name, s)
		}
		return ""
	case 11:
		e = w.NewEntity(t.str)
		tplStringLocal(t, e, tok)
		clobberStack(clobber)
		if gc {
			runtime.GC()
		}
		c := (*PStr)(w.Get(e, t.str))
		if c.S != fmt.Sprintf("token-%d-token-%d-token", tok, tok) || c.A != 7 {
			return fmt.Sprintf("%s: the string is lost after the call returned: %q", name, c.S)
		}
		if c.P == nil || c.P.Tok != tok {
			return fmt.Sprintf("%s: the referent is lost after the call returned", name)
		}
		return ""
	case 12:
		e = w.NewEntity(t.ptr)
		tplGetPointerWrite(t, e, tok)
	}
	clobberStack(clobber)
	if gc {
		runtime.GC()
	}
	// move the entity to another table and read back
	w.Add(e, ecs.ComponentID[PTag](&w))
	c := (*PPtr)(w.Get(e, t.ptr))
	if c == nil || c.P == nil {
		return fmt.Sprintf("%s: component or referent pointer is nil after the call returned", name)
	}
	if c.P.Tok != tok {
		return fmt.Sprintf("%s: after the supplying call returned (and the stack was reused) the referent reads token %#x instead of %d: the stored pointer refers to the caller's dead stack frame", name, c.P.Tok, tok)
	}
	return ""
}

// ---- parts (a) and (b): histories under GC pressure -------------------------------------------------

type gcOp struct {
	K string `json:"k"` // new | newbatch | rm | rmall | addplain | remplain | settarget | overwrite | rempointer | addpointer | grow | reset | check | flush
	E int    `json:"e"`
	T int    `json:"t"`
	V int    `json:"v"` // which pointer component / supply path
	N int    `json:"n"`
}

type gcCase struct {
	Property string `json:"property"`
	Build    string `json:"build"`
	Message  string `json:"message"`
	Template int    `json:"template,omitempty"` // >0: a call-site template case (k+1)
	Tok      uint64 `json:"tok,omitempty"`
	Clobber  int    `json:"clobber,omitempty"`
	Cap      int    `json:"cap"`
	GCers    int    `json:"gcers"` // goroutines forcing collections
	// PlainFirst: the pointer-free components are registered before the pointer-holding ones.
	PlainFirst bool `json:"plainfirst,omitempty"`
	// Fill: number of filler component types registered before all others.
	Fill int    `json:"fill,omitempty"`
	Ops  []gcOp `json:"ops"`
}

type gcEnt struct {
	h     ecs.Entity
	alive bool
	// tokens of the referents reachable only through this entity's components
	ptr, rel, str  uint64
	ostr, oif, ofn uint64
	sli            []uint64
	mp             []uint64
	plain, tag     bool
	hasRel         bool
	target         int
}

type gcWorld struct {
	w    *ecs.World
	book *refBook
	ents []*gcEnt
	ids  struct{ ptr, sli, mp, str, rel, plain, tag, ostr, oif, ofn ecs.ID }
	// pending: tokens released by the model; their finalizers must have run after a flush
	pending []uint64
	labels  map[string]bool
	moves   int
	// shared: additional components that reference the same referent (clones)
	shared map[uint64]int
}

func newGCWorld(cap int, plainFirst bool, fill int) *gcWorld {
	w := ecs.NewWorld(ecs.NewConfig().WithCapacityIncrement(cap))
	g := &gcWorld{w: &w, book: newRefBook(), labels: map[string]bool{}, shared: map[uint64]int{}}
	// filler types first: the pointer-holding components then get high ids (other mask words)
	for i := 0; i < fill && i < ecs.MaskTotalBits-12; i++ {
		ecs.TypeID(&w, core.FillerType(3000+i))
	}
	if plainFirst {
		// the pointer-free components get the lowest ids
		g.ids.plain, g.ids.tag = ecs.ComponentID[PPlain](&w), ecs.ComponentID[PTag](&w)
	}
	g.ids.ptr, g.ids.sli, g.ids.mp = ecs.ComponentID[PPtr](&w), ecs.ComponentID[PSli](&w), ecs.ComponentID[PMap](&w)
	g.ids.str, g.ids.rel = ecs.ComponentID[PStr](&w), ecs.ComponentID[PRel](&w)
	g.ids.plain, g.ids.tag = ecs.ComponentID[PPlain](&w), ecs.ComponentID[PTag](&w)
	g.ids.ostr, g.ids.oif, g.ids.ofn = ecs.ComponentID[POnlyStr](&w), ecs.ComponentID[POnlyIface](&w), ecs.ComponentID[POnlyFunc](&w)
	return g
}

// drop: one component that referenced tok is gone; the referent is released when it was the last one
// (clones share referents).
func (g *gcWorld) drop(tok uint64) {
	if g.shared[tok] > 0 {
		g.shared[tok]--
		return
	}
	g.book.release(tok)
	g.pending = append(g.pending, tok)
}

func (g *gcWorld) releaseAll(e *gcEnt) {
	for _, tok := range append(append([]uint64{e.ptr, e.rel, e.str, e.ostr, e.oif, e.ofn}, e.sli...), e.mp...) {
		if tok != 0 {
			g.drop(tok)
		}
	}
	e.ptr, e.rel, e.str, e.sli, e.mp = 0, 0, 0, nil, nil
	e.ostr, e.oif, e.ofn = 0, 0, 0
}

// newValues builds the pointer components of a new entity; the referents are allocated first
// (so that they are old objects by the time they are moved around).
//
//go:noinline
func (g *gcWorld) makeComps(e *gcEnt, which int) []ecs.Component {
	comps := []ecs.Component{}
	if which&1 != 0 {
		p, tok := g.book.newPayload()
		e.ptr = tok
		comps = append(comps, ecs.Component{ID: g.ids.ptr, Comp: &PPtr{P: p}})
	}
	if which&2 != 0 {
		// a slice whose backing array is reachable only through the component; the finalizer
		// sits on the array's first element (the start of the allocation)
		tok := g.book.newToken()
		sl := make([]payload, 2)
		g.book.fill(&sl[1], tok, false)
		g.book.fill(&sl[0], tok, true)
		e.sli = []uint64{tok}
		comps = append(comps, ecs.Component{ID: g.ids.sli, Comp: &PSli{S: sl}})
	}
	if which&4 != 0 {
		p, tok := g.book.newPayload()
		e.mp = []uint64{tok}
		comps = append(comps, ecs.Component{ID: g.ids.mp, Comp: &PMap{M: map[uint64]*payload{tok: p}}})
	}
	if which&8 != 0 {
		p, tok := g.book.newPayload()
		e.str = tok
		comps = append(comps, ecs.Component{ID: g.ids.str, Comp: &PStr{A: uint32(tok), S: fmt.Sprintf("string-of-%d-%s", tok, "xxxxxxxxxxxxxxxxxxxxxxxx"), P: p}})
	}
	if which&16 != 0 {
		p, tok := g.book.newPayload()
		e.rel = tok
		e.hasRel = true
		e.target = -1
		comps = append(comps, ecs.Component{ID: g.ids.rel, Comp: &PRel{P: p}})
	}
	if which&64 != 0 {
		// a string whose bytes live in a block that is reachable only through the component; the
		// finalizer sits on the block
		tok := g.book.newToken()
		blk := make([]byte, 48)
		copy(blk, fmt.Sprintf("only-string-%020d-padpadpad", tok))
		g.book.finalizeBlock(&blk[0], tok)
		e.ostr = tok
		comps = append(comps, ecs.Component{ID: g.ids.ostr, Comp: &POnlyStr{S: unsafe.String(&blk[0], len(blk))}})
	}
	if which&128 != 0 {
		p, tok := g.book.newPayload()
		e.oif = tok
		comps = append(comps, ecs.Component{ID: g.ids.oif, Comp: &POnlyIface{I: p}})
	}
	if which&256 != 0 {
		p, tok := g.book.newPayload()
		e.ofn = tok
		comps = append(comps, ecs.Component{ID: g.ids.ofn, Comp: &POnlyFunc{F: func() uint64 { return p.Tok }}})
	}
	if which&32 != 0 {
		e.plain = true
		comps = append(comps, ecs.Component{ID: g.ids.plain, Comp: &PPlain{V: 5}})
	}
	return comps
}

// verify reads every referent through its component.
func (g *gcWorld) verify() string {
	g.book.mu.Lock()
	early := append([]uint64{}, g.book.early...)
	g.book.mu.Unlock()
	if len(early) > 0 {
		return fmt.Sprintf("referents %v were finalized (found unreachable by the collector) while the components referencing them still exist", early)
	}
	for i, e := range g.ents {
		if !e.alive {
			continue
		}
		w := g.w
		if e.ptr != 0 {
			c := (*PPtr)(w.Get(e.h, g.ids.ptr))
			if c == nil {
				return fmt.Sprintf("entity %d lost its pointer component", i)
			}
			if msg := checkPayload(c.P, e.ptr); msg != "" {
				return fmt.Sprintf("entity %d, *T component: %s", i, msg)
			}
		}
		if len(e.sli) > 0 {
			c := (*PSli)(w.Get(e.h, g.ids.sli))
			if c == nil || len(c.S) != 2 {
				return fmt.Sprintf("entity %d lost its slice component", i)
			}
			for k := range c.S {
				if msg := checkPayload(&c.S[k], e.sli[0]); msg != "" {
					return fmt.Sprintf("entity %d, []T component element %d: %s", i, k, msg)
				}
			}
		}
		if len(e.mp) > 0 {
			c := (*PMap)(w.Get(e.h, g.ids.mp))
			if c == nil || c.M == nil {
				return fmt.Sprintf("entity %d lost its map component", i)
			}
			if msg := checkPayload(c.M[e.mp[0]], e.mp[0]); msg != "" {
				return fmt.Sprintf("entity %d, map component: %s", i, msg)
			}
		}
		if e.str != 0 {
			c := (*PStr)(w.Get(e.h, g.ids.str))
			if c == nil {
				return fmt.Sprintf("entity %d lost its string component", i)
			}
			if want := fmt.Sprintf("string-of-%d-%s", e.str, "xxxxxxxxxxxxxxxxxxxxxxxx"); c.S != want || c.A != uint32(e.str) {
				return fmt.Sprintf("entity %d, string component reads %q, want %q", i, c.S, want)
			}
			if msg := checkPayload(c.P, e.str); msg != "" {
				return fmt.Sprintf("entity %d, string+pointer component: %s", i, msg)
			}
		}
		if e.ostr != 0 {
			c := (*POnlyStr)(w.Get(e.h, g.ids.ostr))
			if want := fmt.Sprintf("only-string-%020d-padpadpad", e.ostr); c == nil || len(c.S) != 48 || c.S[:len(want)] != want {
				return fmt.Sprintf("entity %d, string-only component reads %q, want %q", i, c.S, want)
			}
		}
		if e.oif != 0 {
			c := (*POnlyIface)(w.Get(e.h, g.ids.oif))
			p, _ := c.I.(*payload)
			if msg := checkPayload(p, e.oif); msg != "" {
				return fmt.Sprintf("entity %d, interface-only component: %s", i, msg)
			}
		}
		if e.ofn != 0 {
			c := (*POnlyFunc)(w.Get(e.h, g.ids.ofn))
			if c == nil || c.F == nil || c.F() != e.ofn {
				return fmt.Sprintf("entity %d, func-only component: the closure no longer yields token %d", i, e.ofn)
			}
		}
		if e.rel != 0 {
			c := (*PRel)(w.Get(e.h, g.ids.rel))
			if c == nil {
				return fmt.Sprintf("entity %d lost its relation component", i)
			}
			if msg := checkPayload(c.P, e.rel); msg != "" {
				return fmt.Sprintf("entity %d, relation component with pointer: %s", i, msg)
			}
		}
	}
	return ""
}

// flushAndCheckRelease: everything the model released must have been finalized.
func (g *gcWorld) flushAndCheckRelease() string {
	flushFinalizers()
	g.book.mu.Lock()
	defer g.book.mu.Unlock()
	for _, tok := range g.pending {
		if !g.book.finalized[tok] {
			return fmt.Sprintf("referent %d is still kept alive although its component/entity was removed (or the world reset): the storage still references it", tok)
		}
	}
	g.pending = nil
	return ""
}

func (g *gcWorld) pick(i int, pred func(*gcEnt) bool) *gcEnt {
	n := len(g.ents)
	for k := 0; k < n; k++ {
		e := g.ents[(i+k)%n]
		if e.alive && pred(e) {
			return e
		}
	}
	return nil
}

func (g *gcWorld) apply(op gcOp) string {
	w := g.w
	anyEnt := func(*gcEnt) bool { return true }
	switch op.K {
	case "new":
		e := &gcEnt{alive: true, target: -1}
		which := op.V&511 | 1
		comps := g.makeComps(e, which)
		switch op.N % 3 {
		case 0:
			e.h = w.NewEntityWith(comps...)
		case 1:
			e.h = ecs.NewBuilderWith(w, comps...).New()
		default:
			ids := []ecs.ID{}
			for _, c := range comps {
				ids = append(ids, c.ID)
			}
			e.h = w.NewEntity(ids...)
			for _, c := range comps {
				w.Set(e.h, c.ID, c.Comp)
			}
		}
		g.ents = append(g.ents, e)
	case "clone":
		// the clone idiom: every component of a new entity is supplied BY a pointer into the world's
		// own storage (the Get pointer of the template entity), so the call reads its arguments from
		// the tables it is changing - also when the receiving table grows in this very call
		src := g.pick(op.E, func(e *gcEnt) bool { return e.ptr != 0 })
		if src == nil {
			break
		}
		e := &gcEnt{alive: true, target: -1}
		comps := []ecs.Component{}
		add := func(id ecs.ID, tok uint64) uint64 {
			if tok != 0 {
				g.shared[tok]++
			}
			var c any = w.Get(src.h, id)
			if op.V&1 != 0 {
				// as a typed pointer, where the type is at hand
				switch id {
				case g.ids.ptr:
					c = (*PPtr)(w.Get(src.h, id))
				case g.ids.sli:
					c = (*PSli)(w.Get(src.h, id))
				case g.ids.str:
					c = (*PStr)(w.Get(src.h, id))
				}
			}
			comps = append(comps, ecs.Component{ID: id, Comp: c})
			return tok
		}
		e.ptr = add(g.ids.ptr, src.ptr)
		if len(src.sli) > 0 {
			e.sli = []uint64{add(g.ids.sli, src.sli[0])}
		}
		if len(src.mp) > 0 {
			e.mp = []uint64{add(g.ids.mp, src.mp[0])}
		}
		if src.str != 0 {
			e.str = add(g.ids.str, src.str)
		}
		if src.ostr != 0 {
			e.ostr = add(g.ids.ostr, src.ostr)
		}
		if src.oif != 0 {
			e.oif = add(g.ids.oif, src.oif)
		}
		if src.ofn != 0 {
			e.ofn = add(g.ids.ofn, src.ofn)
		}
		if src.hasRel {
			e.rel, e.hasRel = add(g.ids.rel, src.rel), true
		}
		if src.plain {
			e.plain = true
			add(g.ids.plain, 0)
		}
		if src.tag {
			e.tag = true
			add(g.ids.tag, 0)
		}
		switch op.N % 3 {
		case 0:
			e.h = w.NewEntityWith(comps...)
		case 1:
			e.h = ecs.NewBuilderWith(w, comps...).New()
		default:
			e.h = w.NewEntity()
			w.Assign(e.h, comps...)
		}
		g.ents = append(g.ents, e)
		g.labels["clone through Get pointers"] = true
	case "rm":
		if e := g.pick(op.E, anyEnt); e != nil {
			// the bookkeeping is released BEFORE the call that drops the reference: a collection may
			// run (and finalize the referent) at any moment after the call
			h := e.h
			e.alive = false
			g.releaseAll(e)
			w.RemoveEntity(h)
			g.labels["entity removed"] = true
		}
	case "rmall":
		// all entities with the plain component
		cnt := 0
		for _, e := range g.ents {
			if e.alive && e.plain {
				e.alive = false
				g.releaseAll(e)
				cnt++
			}
		}
		n := w.Batch().RemoveEntities(ecs.All(g.ids.plain))
		if n != cnt {
			return fmt.Sprintf("RemoveEntities removed %d, expected %d", n, cnt)
		}
	case "addplain": // moves the entity (and all its pointer components) to another table
		if e := g.pick(op.E, func(e *gcEnt) bool { return !e.plain }); e != nil {
			w.Add(e.h, g.ids.plain)
			e.plain = true
			g.moves++
		}
	case "remplain":
		if e := g.pick(op.E, func(e *gcEnt) bool { return e.plain }); e != nil {
			w.Remove(e.h, g.ids.plain)
			e.plain = false
			g.moves++
		}
	case "tag":
		if e := g.pick(op.E, anyEnt); e != nil {
			if e.tag {
				w.Remove(e.h, g.ids.tag)
			} else {
				w.Add(e.h, g.ids.tag)
			}
			e.tag = !e.tag
			g.moves++
		}
	case "batchtag": // batch move of all entities without tag
		noTag := ecs.All().Without(g.ids.tag)
		w.Batch().Add(&noTag, g.ids.tag)
		for _, e := range g.ents {
			if e.alive && !e.tag {
				e.tag = true
				g.moves++
			}
		}
	case "batchuntag": // batch move back: every tagged entity loses the tag
		w.Batch().Remove(ecs.All(g.ids.tag), g.ids.tag)
		for _, e := range g.ents {
			if e.alive && e.tag {
				e.tag = false
				g.moves++
			}
		}
	case "batchexch": // plain -> tag in one batch call, for entities with plain and without tag
		f := ecs.All(g.ids.plain).Without(g.ids.tag)
		w.Batch().Exchange(&f, []ecs.ID{g.ids.tag}, []ecs.ID{g.ids.plain})
		for _, e := range g.ents {
			if e.alive && e.plain && !e.tag {
				e.plain, e.tag = false, true
				g.moves++
			}
		}
	case "batchrempointer": // a pointer-holding component is removed from all its carriers in one batch call
		for _, e := range g.ents {
			if e.alive && len(e.mp) > 0 {
				g.drop(e.mp[0])
				e.mp = nil
				g.moves++
				g.labels["pointer component removed by a batch call"] = true
			}
		}
		w.Batch().Remove(ecs.All(g.ids.mp), g.ids.mp)
	case "settarget":
		if e := g.pick(op.E, func(e *gcEnt) bool { return e.hasRel }); e != nil {
			t := g.pick(op.T, anyEnt)
			if t != nil {
				w.Relations().Set(e.h, g.ids.rel, t.h)
				g.moves++
			}
		}
	case "overwrite": // Set over an existing pointer component: the old referent is released
		if e := g.pick(op.E, func(e *gcEnt) bool { return e.ptr != 0 }); e != nil {
			p, tok := g.book.newPayload()
			old := e.ptr
			g.drop(old)
			w.Set(e.h, g.ids.ptr, &PPtr{P: p})
			e.ptr = tok
			g.labels["component overwritten"] = true
		}
	case "rempointer":
		if e := g.pick(op.E, func(e *gcEnt) bool { return len(e.mp) > 0 }); e != nil {
			g.drop(e.mp[0])
			e.mp = nil
			w.Remove(e.h, g.ids.mp)
			g.moves++
			g.labels["pointer component removed"] = true
		}
	case "reset":
		for _, e := range g.ents {
			if e.alive {
				e.alive = false
				g.releaseAll(e)
			}
		}
		w.Reset()
		g.labels["reset"] = true
	case "flush":
		return g.flushAndCheckRelease()
	}
	return ""
}

func runGCCase(c *gcCase) (msg string, labels map[string]bool, moves int) {
	if c.Template > 0 {
		return runTemplate(c.Template-1, c.Tok, c.Clobber, true), map[string]bool{"template " + templateNames[(c.Template-1)%len(templateNames)]: true}, 0
	}
	g := newGCWorld(c.Cap, c.PlainFirst, c.Fill)
	stop := make(chan struct{})
	var wg sync.WaitGroup
	var cycles int64
	for i := 0; i < c.GCers; i++ {
		wg.Add(1)
		go func() {
			defer wg.Done()
			for {
				select {
				case <-stop:
					return
				default:
					runtime.GC()
					atomic.AddInt64(&cycles, 1)
				}
			}
		}()
	}
	defer func() {
		close(stop)
		wg.Wait()
	}()
	for k, op := range c.Ops {
		var m string
		if p := core.Call(func() { m = g.apply(op) }); p != nil {
			return fmt.Sprintf("op %d %+v panicked: %v", k, op, p), g.labels, g.moves
		}
		if m != "" {
			return fmt.Sprintf("op %d %+v: %s", k, op, m), g.labels, g.moves
		}
		if p := core.Call(func() { m = g.verify() }); p != nil {
			return fmt.Sprintf("after op %d %+v: reading a component's referent panicked: %v", k, op, p), g.labels, g.moves
		}
		if m != "" {
			return fmt.Sprintf("after op %d %+v: %s", k, op, m), g.labels, g.moves
		}
	}
	if m := g.flushAndCheckRelease(); m != "" {
		return "at the end: " + m, g.labels, g.moves
	}
	if m := g.verify(); m != "" {
		return "at the end: " + m, g.labels, g.moves
	}
	if atomic.LoadInt64(&cycles) > 0 {
		g.labels["collections ran concurrently"] = true
	}
	return "", g.labels, g.moves
}

func TestC14(t *testing.T) {
	withStats(t, "C14", func(st *core.Stats) {
		st.Rule = "(t) 13 call-site templates (World.Set/Assign/NewEntityWith, Builder.New/NewBatchQ/Add, generic Map.Set/Map1.NewWith/Assign, slice, string, write through the Get pointer) whose component literal and referent are locals of a non-inlined function: after it returns the stack is overwritten (generated depth), a GC forced, the entity moved to another table and the referent read back - all templates are walked in every run; (a) generated histories of creations (three supply paths; also clones whose every component is supplied by the Get pointer of a template entity, i.e. read from the very tables the call changes and possibly grows), removals, RemoveEntities, Add/Remove of other components (moves between tables), batch moves (Batch.Add/Remove/Exchange, also removing a pointer-holding component from all its carriers at once), both registration orders of pointer-free and pointer-holding components, component ids in every mask word (0-240 filler types registered first), relation retargeting, overwriting and Reset on entities whose components hold *T, []T, map, string(+pointer), string only, interface only, func (closure) only, and a relation component with a pointer, referents allocated before and reachable only through the component, with capacity increment 1-2 (growth every few entities) while 0-4 goroutines force collections continuously; after every op every referent is read through its component (token and padding intact) and no referent may have been finalized while its component exists; (b) after removal of the component/entity, overwriting or Reset, a deterministic flush (GC, sentinel finalizer, GC, three rounds) must have run the finalizer of every released referent; non-trivial = a history with >= 3 moves of pointer-holding entities between tables and concurrent collections; the GC schedule is not controlled (stress exploration)"
		if path, ok := replaying(); ok {
			var c gcCase
			if err := core.ReadReplay(path, &c); err != nil {
				t.Fatalf("cannot read replay: %v", err)
			}
			reps := 1
			if c.Template == 0 && c.GCers > 0 {
				reps = 30 // schedule-dependent: re-run the history under stress a bounded number of times
			}
			for i := 0; i < reps; i++ {
				if msg, _, _ := runGCCase(&c); msg != "" {
					t.Fatalf("C14 violated: %s", msg)
				}
			}
			return
		}
		if core.EnvInt("VERIF_SHARD", 0)%2 == 0 {
			t.Run("templates", func(t *testing.T) {
				rapid.Check(t, func(rt *rapid.T) {
					c := &gcCase{Property: "C14", Build: core.BuildName()}
					c.Template = rapid.IntRange(1, len(templateNames)).Draw(rt, "template")
					c.Tok = rapid.Uint64Range(1, 1<<40).Draw(rt, "tok")
					c.Clobber = rapid.IntRange(1, 60).Draw(rt, "clobber")
					cs := st.Begin()
					defer cs.End()
					cs.Feed(fmt.Sprintf("%d/%d/%d", c.Template, c.Tok, c.Clobber))
					cs.NonTrivial()
					cs.Label("template " + templateNames[c.Template-1])
					cs.Sample(func() any { return c })
					if msg, _, _ := runGCCase(c); msg != "" {
						c.Message = msg
						core.WriteFail(c)
						rt.Fatalf("C14 violated: %s", msg)
					}
				})
			})
		}
		t.Run("histories", func(t *testing.T) {
			rapid.Check(t, func(rt *rapid.T) {
				c := &gcCase{Property: "C14", Build: core.BuildName()}
				c.Cap = rapid.SampledFrom([]int{1, 1, 2, 4, 128}).Draw(rt, "cap")
				c.GCers = rapid.SampledFrom([]int{0, 1, 2, 4, 4}).Draw(rt, "gcers")
				n := rapid.IntRange(5, 60).Draw(rt, "nops")
				kinds := []string{"new", "new", "new", "clone", "clone", "rm", "rmall", "addplain", "addplain", "remplain", "tag", "tag", "batchtag", "batchuntag", "batchexch", "batchrempointer", "settarget", "settarget", "overwrite", "rempointer", "reset", "flush"}
				c.PlainFirst = rapid.Bool().Draw(rt, "plainfirst")
				c.Fill = rapid.SampledFrom([]int{0, 0, 0, 58, 64, 120, 128, 190, 240}).Draw(rt, "fill")
				for i := 0; i < n; i++ {
					k := rapid.SampledFrom(kinds).Draw(rt, "k")
					if k == "reset" && rapid.IntRange(0, 3).Draw(rt, "rarereset") != 0 {
						k = "new"
					}
					c.Ops = append(c.Ops, gcOp{K: k, E: rapid.IntRange(0, 40).Draw(rt, "e"), T: rapid.IntRange(0, 40).Draw(rt, "t"),
						V: rapid.IntRange(0, 511).Draw(rt, "v"), N: rapid.IntRange(0, 2).Draw(rt, "n")})
				}
				cs := st.Begin()
				defer cs.End()
				for _, op := range c.Ops {
					cs.Feed(fmt.Sprintf("%s/%d/%d/%d/%d", op.K, op.E, op.T, op.V, op.N))
				}
				cs.FeedInt(uint64(c.Cap*10 + c.GCers))
				cs.Sample(func() any { return c })
				if os.Getenv("VERIF_FAIL_OUT") != "" {
					if b, err := json.Marshal(c); err == nil {
						_ = os.WriteFile("current-case.json", b, 0o644)
					}
				}
				msg, labels, moves := runGCCase(c)
				for l := range labels {
					cs.Label(l)
				}
				if moves >= 3 && c.GCers > 0 {
					cs.NonTrivial()
				}
				if msg != "" {
					c.Message = msg
					core.WriteFail(c)
					rt.Fatalf("C14 violated: %s", msg)
				}
			})
		})
	})
}
