package props

// C06 — target death and table recycling never corrupt or leak entities.

import (
	"strings"
	"testing"

	"verifharness/core"

	"pgregory.net/rapid"
)

// hasOrphans: some alive entity's relation target is dead.
func hasOrphans(s *core.Sim) bool {
	for i := range s.M.Ents {
		e := &s.M.Ents[i]
		if e.Alive && e.Target >= 0 && s.M.RelOf(e.Comps) >= 0 && !s.M.Ents[e.Target].Alive {
			return true
		}
	}
	return false
}

func TestC06(t *testing.T) {
	mix := relMix()
	mix[core.OpRemoveEnt] = 22
	mix[core.OpRemoveEnts] = 6
	mix[core.OpReset] = 1
	mix[core.OpBuildNew] = 14
	mix[core.OpBuildBatch] = 8
	mix[core.OpSet] = 5
	mix[core.OpRegister] = 4
	mix[core.OpUnregister] = 1
	mix[core.OpQuery] = 5
	mix["useRegistered"] = 40
	runSimProp(t, &simProp{
		ID: "C06",
		Cfg: core.SimConfig{
			Prop:            "C06",
			Owned:           core.Own(core.CatPanicTarget, core.CatInvNode, core.CatInvTable, core.CatCorrupt),
			Verify:          core.FullVerify,
			CheckRelQueries: true,
			ScanRegistered:  true,
			// with a listener installed (half of the cases) the events are judged too: "keeps
			// reporting the dead handle" also holds for the OldTarget an event carries
			CheckEvents: true,
			// what the statement promises about OTHER entities is owned at the moment a target
			// dies, and whenever entities are put under a target after some table was retired
			OwnedIf: func(s *core.Sim, f *core.Finding) bool {
				switch f.Cat {
				case core.CatRelation, core.CatComponents, core.CatHandles, core.CatScan, core.CatInvIndex, core.CatObserve:
				case core.CatCacheDiff, core.CatPanicCached, core.CatBatchDiff:
					// registered filters and batch calls: owned only once a table was retired
					return len(s.DeadTargets) > 0
				case core.CatEvents:
					// events about entities whose (old) target is dead
					if len(s.DeadTargets) == 0 {
						return false
					}
					for _, k := range []string{"Target", "type bits", "no event for", "nothing changed"} {
						if strings.Contains(f.Msg, k) {
							return true
						}
					}
					return false
				case core.CatBatchQuery:
					// what the query of a batch call reports about orphans (entities whose target is dead)
					return hasOrphans(s)
				default:
					return false
				}
				if s.TargetDied {
					return true
				}
				if hasOrphans(s) {
					// "still report the dead handle" holds for as long as the orphans live, whatever is
					// done to them (also by calls that do not mention the relation)
					return true
				}
				if len(s.DeadTargets) > 0 && len(s.Ops) > 0 {
					o := &s.Ops[len(s.Ops)-1]
					return o.T >= 0
				}
				return false
			},
		},
		Mix:      mix,
		MaxPlain: 3, MinRel: 1, MaxRel: 2,
		Setup: func(rt *rapid.T, sim *core.Sim, g *core.Gen) {
			g.TargetRemovalPct = 60
			g.DeadFilterTargets = true
			// now and then a relation call with illegal arguments (also batch calls that panic half way):
			// whatever was applied, the world stays consistent
			g.Illegal = []string{core.IllRelMissing, core.IllDeadTarget, core.IllSecondRel}
			g.IllegalPct = 5
		},
		Rule: "histories biased to: create parents, attach children (several relation nodes), remove parents while their tables are empty / non-empty / become empty later (by removal, move, batch operation, Reset), self-targets, parents removed in the same RemoveEntities call as their children, then reuse of the same component sets with new targets; oracle after every op: removals never panic, children stay alive with identical components and values and still report the dead handle (also as OldTarget of the events a listener receives, in the half of the cases that install one), Query(RelationFilter(All(r),t)) for every live and every dead target equals the model (nothing shows up under a foreign target), rows of reused tables read zero, node/free-list/target-map invariants through the hook; non-trivial = a retired table was reused (hook: retired-table count dropped) after a target died; without hooks: a target died and a later op put entities under another target",
		Observe: func(tr *tracker, op *core.Op) {
			_, retired, _ := core.TableCounts(tr.sim.B.W)
			prev := tr.counters["retired"]
			if retired >= 0 {
				if retired > prev {
					tr.cs.Label("table retired")
					tr.flag("retired")
				}
				if retired < prev && op.K != core.OpReset {
					tr.cs.Label("retired table reused")
					tr.counters["reuses"]++
					if len(tr.sim.DeadTargets) > 0 {
						tr.cs.NonTrivial()
					}
				}
				tr.counters["retired"] = retired
				if tr.counters["reuses"] >= 3 {
					tr.cs.Label(">=3 retire/reuse cycles")
				}
			} else if len(tr.sim.DeadTargets) > 0 && op.T >= 0 {
				tr.cs.NonTrivial()
			}
			if tr.sim.TargetDied {
				switch op.K {
				case core.OpRemoveEnt:
					if m := tr.sim.M; op.E < len(m.Ents) {
						tr.cs.Label("target removed singly")
					}
				case core.OpRemoveEnts:
					tr.cs.Label("target removed by RemoveEntities")
				case core.OpReset:
					tr.cs.Label("targets removed by Reset")
				}
			}
			if (op.K == core.OpRelSet || op.K == core.OpRelExchange || op.K == core.OpBuildAdd) && op.T == op.E && op.Ill == "" {
				tr.cs.Label("self-target")
			}
		},
	})
}
