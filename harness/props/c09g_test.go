package props

// C09, generic part: every structural entry point of package generic is refused on a locked world.

import (
	"fmt"
	"strings"
	"testing"
	"unsafe"

	"verifharness/core"

	"github.com/mlange-42/arche/ecs"
	"github.com/mlange-42/arche/generic"
	"pgregory.net/rapid"
)

// a type that is registered for the first time by a generic call under lock
type gLate1 struct{ V uint64 }
type gLate2 struct{ V uint32 }

type lockGCase struct {
	Property string `json:"property"`
	Test     string `json:"test"`
	Build    string `json:"build"`
	Message  string `json:"message"`
	Adapter  int    `json:"adapter"`
	Source   int    `json:"source"` // 0 plain query, 1 generic filter query, 2 batch-result query of a generic call, 3 nested
	Depth    int    `json:"depth"`
	Fill     int    `json:"fill"` // entities created before
	Cap      int    `json:"cap"`
}

type gEntry struct {
	name string
	f    func()
}

// genericEntries lists legal calls of every structural entry point of package generic for
// adapter ad; e1 lacks all of the adapter's types, e2 has all of them.
func genericEntries(g *gWorld, ad *gAdapter, e1, e2, parent ecs.Entity) []gEntry {
	w := g.Wg
	relT := relIn(ad.Types)
	var rel []generic.Comp
	if relT >= 0 {
		rel = []generic.Comp{allStaticTypes[relT]}
	}
	m := ad.NewMap(w, rel...)
	ptrs, _ := g.values(ad.Types, 77)
	without := ecs.All().Without(g.mapIDs(append(append([]int{}, ad.Types...), tGR0, tGR1))...)
	with := ecs.All(g.mapIDs(ad.Types)...)
	never := ecs.All(g.ids[0]).Without(g.ids[0])
	mr := generic.NewMap[GR0](w)
	// ONE filter object over a type the world has not seen: refused while locked, and the same object
	// must work once the world is unlocked (a failed compilation leaves nothing behind)
	lateFilter := generic.NewFilter1[gLate2]()
	relEnt := parent
	out := []gEntry{
		{"MapN.New", func() { m.New() }},
		{"MapN.NewBatch", func() { m.NewBatch(3) }},
		{"MapN.NewBatchQ", func() { q := m.NewBatchQ(2); q.Base().Close() }},
		{"MapN.NewWith", func() { m.NewWith(ptrs) }},
		{"MapN.Add", func() { m.Add(e1) }},
		{"MapN.AddBatch", func() { m.AddBatch(&without) }},
		{"MapN.AddBatchQ", func() { q := m.AddBatchQ(&without); q.Base().Close() }},
		{"MapN.Assign", func() { m.Assign(e1, ptrs) }},
		{"MapN.Remove", func() { m.Remove(e2) }},
		{"MapN.RemoveBatch", func() { m.RemoveBatch(with) }},
		{"MapN.RemoveBatchQ", func() { q := m.RemoveBatchQ(with); q.Base().Close() }},
		{"MapN.RemoveEntities", func() { m.RemoveEntities(false) }},
		{"MapN.RemoveEntities(exclusive)", func() { m.RemoveEntities(true) }},
		{"MapN.AddBatch (matches nothing)", func() { m.AddBatch(&never) }},
		{"Map.SetRelation", func() { mr.SetRelation(relEnt, e1) }},
		{"Map.SetRelationBatch", func() { mr.SetRelationBatch(ecs.All(g.ids[tGR0]), e1) }},
		{"Map.SetRelationBatchQ", func() { q := mr.SetRelationBatchQ(ecs.All(g.ids[tGR0]), e1); q.Close() }},
		{"Exchange.NewEntity", func() { generic.NewExchange(w).Adds(generic.T[G0]()).NewEntity() }},
		{"Exchange.Add", func() { generic.NewExchange(w).Adds(generic.T[GX1]()).Add(e1) }},
		{"Exchange.Remove", func() { generic.NewExchange(w).Removes(compsOf(ad.Types[:1])...).Remove(e2) }},
		{"Exchange.Exchange", func() {
			generic.NewExchange(w).Adds(generic.T[GX1]()).Removes(compsOf(ad.Types[:1])...).Exchange(e2)
		}},
		{"Exchange.ExchangeBatch", func() { generic.NewExchange(w).Adds(generic.T[GX1]()).ExchangeBatch(with) }},
		{"NewMap of a new type", func() { generic.NewMap[gLate1](w) }},
		{"Filter.Query registering a new type", func() { q := lateFilter.Query(w); q.Close() }},
	}
	if relT >= 0 {
		out = append(out,
			gEntry{"MapN.New(target)", func() { m.New(e1) }},
			gEntry{"MapN.NewBatch(target)", func() { m.NewBatch(2, e1) }},
			gEntry{"MapN.Add(target)", func() { m.Add(e1, e2) }},
		)
	}
	return out
}

func runLockGCase(c *lockGCase) (msg string, attempts int) {
	g := newGWorld(c.Cap)
	ad := &gAdapters[c.Adapter%len(gAdapters)]
	for ad.NewMap == nil {
		ad = &gAdapters[(c.Adapter+1)%len(gAdapters)]
	}
	w := g.Wg
	relT := relIn(ad.Types)
	var rel []generic.Comp
	if relT >= 0 {
		rel = []generic.Comp{allStaticTypes[relT]}
	}
	m := ad.NewMap(w, rel...)
	for i := 0; i < c.Fill; i++ {
		m.New()
	}
	e1 := w.NewEntity(g.ids[tGX0])
	e2 := m.New()
	pm := generic.NewMap1[GR0](w)
	parent := pm.New()
	entries := genericEntries(g, ad, e1, e2, parent)

	// hold the lock
	var closers []func()
	open := func(kind int) {
		switch kind % 3 {
		case 0:
			q := w.Query(ecs.All())
			closers = append(closers, q.Close)
		case 1:
			q := generic.NewFilter1[GX0]().Query(w)
			closers = append(closers, q.Close)
		case 2:
			// only possible as the first lock: the call itself is structural
			if len(closers) == 0 {
				bm := generic.NewMap1[GX0](w)
				q := bm.NewBatchQ(2)
				closers = append(closers, q.Close)
			} else {
				q := w.Query(ecs.All(g.ids[0]))
				closers = append(closers, q.Close)
			}
		}
	}
	open(c.Source)
	for i := 1; i < c.Depth; i++ {
		open(c.Source + i)
	}
	defer func() {
		for i := len(closers) - 1; i >= 0; i-- {
			if w.IsLocked() {
				core.Call(closers[i])
			}
		}
	}()
	if !w.IsLocked() {
		return "world not locked although queries are open", 0
	}
	for _, en := range entries {
		before := core.Shape(w)
		p := core.Call(en.f)
		attempts++
		if p == nil {
			return fmt.Sprintf("%s (adapter %s) succeeded on a locked world", en.name, ad.Name), attempts
		}
		if !strings.Contains(strings.ToLower(fmt.Sprint(p)), "lock") {
			return fmt.Sprintf("%s (adapter %s) on a locked world panicked with %q instead of the locked-world message", en.name, ad.Name, fmt.Sprint(p)), attempts
		}
		if after := core.Shape(w); after != before {
			return fmt.Sprintf("%s (adapter %s), rejected on a locked world, changed the world:\n--- before\n%s--- after\n%s", en.name, ad.Name, before, after), attempts
		}
		if !w.IsLocked() {
			return fmt.Sprintf("%s (adapter %s), rejected on a locked world, released the lock", en.name, ad.Name), attempts
		}
	}
	// release and repeat: everything succeeds now (in an order that keeps the arguments legal)
	for i := len(closers) - 1; i >= 0; i-- {
		closers[i]()
	}
	closers = nil
	if w.IsLocked() {
		return "world still locked after all queries were closed", attempts
	}
	for _, name := range []string{"NewMap of a new type", "Filter.Query registering a new type", "MapN.New", "MapN.NewBatchQ", "MapN.NewWith", "Exchange.NewEntity", "MapN.Add", "Map.SetRelation", "MapN.Remove", "MapN.RemoveBatch"} {
		for _, en := range entries {
			if en.name != name {
				continue
			}
			if p := core.Call(en.f); p != nil {
				return fmt.Sprintf("%s (adapter %s) panicked after the world was unlocked: %v", en.name, ad.Name, p), attempts
			}
		}
	}
	_ = unsafe.Pointer(nil)
	return "", attempts
}

func TestC09Generic(t *testing.T) {
	withStats(t, "C09", func(st *core.Stats) {
		st.Rule = "generic part: for every generated (adapter = arity x type order out of 36 MapN instantiations, lock source = plain query / generic FilterN query / query returned by a generic NewBatchQ, nesting depth 1-4, world fill, capacity increment) the complete table of generic structural entry points (24-27 entries: MapN.New/NewBatch/NewBatchQ/NewWith/Add/AddBatch/AddBatchQ/Assign/Remove/RemoveBatch/RemoveBatchQ/RemoveEntities, Map.SetRelation/SetRelationBatch/SetRelationBatchQ, Exchange.NewEntity/Add/Remove/Exchange/ExchangeBatch, NewMap and FilterN.Query that would register a new type, plus target and matches-nothing forms) is called with legal arguments: each must panic with the locked-world message and leave the hidden-state digest unchanged; after release the calls succeed"
		if path, ok := replaying(); ok {
			var c lockGCase
			if err := core.ReadReplay(path, &c); err != nil {
				t.Fatalf("cannot read replay: %v", err)
			}
			if c.Cap == 0 { // a replay file of the ID-based part
				t.Skip("not a replay of the generic part")
			}
			if msg, _ := runLockGCase(&c); msg != "" {
				t.Fatalf("C09 violated: %s", msg)
			}
			return
		}
		n := 0
		rapid.Check(t, func(rt *rapid.T) {
			c := &lockGCase{Property: "C09", Test: "TestC09Generic", Build: core.BuildName()}
			c.Adapter = n % len(gAdapters)
			n++
			c.Source = rapid.IntRange(0, 2).Draw(rt, "source")
			c.Depth = rapid.SampledFrom([]int{1, 1, 2, 3, 4}).Draw(rt, "depth")
			c.Fill = rapid.IntRange(0, 5).Draw(rt, "fill")
			c.Cap = rapid.SampledFrom([]int{1, 2, 128}).Draw(rt, "cap")
			cs := st.Begin()
			defer cs.End()
			cs.Feed(fmt.Sprintf("%+v", *c))
			cs.NonTrivial()
			cs.Label(fmt.Sprintf("generic lock source %d depth %d", c.Source, c.Depth))
			cs.Sample(func() any { return c })
			msg, attempts := runLockGCase(c)
			st.Count("generic_locked_attempts", attempts)
			if msg != "" {
				c.Message = msg
				core.WriteFail(c)
				rt.Fatalf("C09 violated: %s", msg)
			}
		})
	})
}
