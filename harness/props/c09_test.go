package props

// C09 — world lock: held exactly while queries are open; blocks every structural change.

import (
	"encoding/json"
	"testing"

	"verifharness/core"

	"pgregory.net/rapid"
)

func TestC09(t *testing.T) {
	mix := fullMix()
	mix[core.OpRegister] = 3
	mix[core.OpUnregister] = 1
	mix[core.OpReset] = 1
	mix[core.OpCacheIll] = 5 // (a call through an unregistered filter must not leave a lock behind)
	mix[core.OpUnregister] = 3
	mix[core.OpQuery] = 4
	mix["useRegistered"] = 30
	runSimProp(t, &simProp{
		ID: "C09",
		Cfg: core.SimConfig{
			Prop:   "C09",
			Owned:  core.Own(core.CatLock, core.CatInvLocks),
			Verify: core.FullVerify,
		},
		Mix:      mix,
		MaxPlain: 4, MaxRel: 2,
		// the world's listener: none, everything, or restricted to event types / components (the
		// removal-event lock is only taken when the listener is interested in the removal)
		CaseCfg: func(rt *rapid.T, cfg core.SimConfig, u *core.Universe) core.SimConfig {
			switch rapid.IntRange(0, 3).Draw(rt, "listener") {
			case 0:
			case 1:
				cfg.Listener = "full"
			default:
				n := u.N()
				sp := &core.SubSpec{Kind: "rec", S: rapid.IntRange(1, 63).Draw(rt, "ls")}
				if rapid.Bool().Draw(rt, "lsRemoved") {
					sp.S |= 2 // event.EntityRemoved
				}
				if rapid.Bool().Draw(rt, "lc") {
					sp.HasC = true
					perm := rapid.Permutation(seqInts(n)).Draw(rt, "lcomps")
					sp.C = append([]int{}, perm[:rapid.IntRange(1, n).Draw(rt, "nlc")]...)
				}
				cfg.Listener, cfg.ListenerSpec = "spec", sp
			}
			return cfg
		},
		Setup: func(rt *rapid.T, sim *core.Sim, g *core.Gen) {
			if sim.Cfg.ListenerSpec != nil {
				sim.ReplayExtra = sim.Cfg.ListenerSpec
				sim.Case.Label("restricted listener")
			} else if sim.Cfg.Listener == "full" {
				sim.ReplayExtra = &core.SubSpec{Kind: "full"}
				sim.Case.Label("full listener")
			}
			g.TargetRemovalPct = 20
		},
		Replay: func(t *testing.T, r *core.Replay, st *core.Stats) {
			cfg := core.SimConfig{Prop: "C09", Owned: core.Own(core.CatLock, core.CatInvLocks), Verify: core.FullVerify}
			if r.Extra != nil {
				b, _ := json.Marshal(r.Extra)
				var sp core.SubSpec
				if json.Unmarshal(b, &sp) == nil {
					if sp.Kind == "full" {
						cfg.Listener = "full"
					} else if sp.Kind != "" {
						cfg.Listener, cfg.ListenerSpec = "spec", &sp
					}
				}
			}
			sim := core.NewSim(t, cfg, r.Universe, st, nil)
			for _, op := range r.Ops {
				sim.Apply(op)
				if sim.Done() {
					return
				}
			}
		},
		Draw: func(rt *rapid.T, sim *core.Sim, g *core.Gen) []core.Op {
			if rapid.IntRange(0, 99).Draw(rt, "lock?") < 30 {
				lo := g.DrawLockOp(rt, sim.Step)
				ops := []core.Op{lo}
				// once unlocked, the call that was refused succeeds (state unchanged by the
				// episode unless the lock belonged to a mutating call)
				if lo.K != core.OpLockDuring && len(lo.Sub) > 0 {
					a := lo.Sub[0]
					switch a.K {
					case core.OpLoadEnts:
					default:
						ops = append(ops, a)
					}
					// the plain type that was refused under lock (after a refused relation type)
					for _, x := range lo.Sub[1:] {
						if x.K == core.OpRegisterNew && x.V == 0 {
							ops = append(ops, x)
						}
					}
				}
				return ops
			}
			if op, ok := g.Draw(rt); ok {
				return []core.Op{op}
			}
			return nil
		},
		Rule: "generated world histories (world listener: none / everything / restricted to generated event types and components) interleaved with lock episodes (30% of steps): (a) 1-6 nested queries through plain and registered filters, each released by a generated path (exhaustion by Next, exhaustion by Step(k), Close, Close after Count, Close after EntityAt, Next then Close) in a generated order; (b) the lock of the query returned by a Q-variant batch call, and the lock held while a removal event is delivered; (c) opening queries up to the limit (256 / 64), one more, closing all in a generated order. While locked the COMPLETE table of ID-based structural entry points is walked with arguments that are legal in the current state (27 entries: NewEntity, NewEntityWith, Builder.New/NewBatch/NewBatchQ/Add, RemoveEntity, Batch.RemoveEntities, Add, Remove, Exchange, Assign, Relations.Set/Exchange, Batch.Add/Remove/Exchange/SetRelation and Relations.ExchangeBatch each with Q variant, Reset, LoadEntities, first-time TypeID) plus no-effect forms (empty lists, same target, filter matching nothing): each call must panic with the locked-world message, the hook's digest of the hidden state must be byte-identical before/after, IsLocked stays true; lock-bit count == number of open queries after every open/release; after the last release the world is unlocked and the first refused call is executed again and must succeed and match the model; non-trivial = an episode with nesting depth >= 2, or a lock held by a batch-result query / removal event, or the limit episode",
		Observe: func(tr *tracker, op *core.Op) {
			switch op.K {
			case core.OpLockEpisode:
				tr.cs.Label("episode: queries")
				if op.N >= 2 {
					tr.cs.NonTrivial()
					tr.cs.Label("episode: nested >= 2")
				}
			case core.OpLockDuring:
				tr.cs.Label("episode: lock of " + op.Sub2[0].K)
				tr.cs.NonTrivial()
			case core.OpLockLimit:
				tr.cs.NonTrivial()
			}
		},
	})
}
