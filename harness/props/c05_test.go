package props

// C05 — relation targets: last assigned target, one relation per entity, alive-or-zero.

import (
	"strings"
	"testing"

	"verifharness/core"

	"pgregory.net/rapid"
)

func relMix() core.Mix {
	return core.Mix{
		core.OpNew: 2, core.OpBuildNew: 10, core.OpBuildBatch: 6, core.OpNewWith: 1,
		core.OpRemoveEnt: 10, core.OpRemoveEnts: 3,
		core.OpAdd: 5, core.OpRemove: 5, core.OpExchange: 5, core.OpAssign: 2, core.OpBuildAdd: 6, core.OpRelExchange: 8,
		core.OpRelSet: 12, core.OpBatchSetRel: 5, core.OpRelExchB: 4, core.OpBatchAdd: 2, core.OpBatchRemove: 2, core.OpBatchExch: 2,
		core.OpSet: 2, core.OpQuery: 3,
	}
}

func relMixWithReset() core.Mix {
	m := relMix()
	m[core.OpReset] = 1
	return m
}

func observeC05(tr *tracker, op *core.Op) {
	m := tr.sim.M
	// a target assignment, then an unrelated move of the same entity, then the read-back
	switch op.K {
	case core.OpRelSet, core.OpRelExchange:
		if op.Ill == "" && op.T >= 0 {
			tr.written[op.E] = tr.step
			tr.cs.Label("target via " + op.K)
		}
	case core.OpBuildAdd:
		if op.Ill == "" && op.T >= 0 {
			tr.written[op.E] = tr.step
			tr.cs.Label("target via Builder.Add")
		}
	case core.OpBuildNew, core.OpBuildBatch:
		if op.Ill == "" && op.T >= 0 {
			tr.written[len(m.Ents)-1] = tr.step
			tr.cs.Label("target via Builder.New/NewBatch")
		}
	case core.OpBatchSetRel, core.OpRelExchB:
		if op.Ill == "" && op.T >= 0 && tr.sim.Flags["batch.affected"] > 0 {
			tr.cs.Label("target via batch " + op.K)
		}
	case core.OpAdd, core.OpRemove, core.OpExchange, core.OpAssign:
		if s, ok := tr.written[op.E]; ok && s < tr.step && op.E < len(m.Ents) && m.Ents[op.E].Alive {
			tr.cs.NonTrivial()
			if m.Ents[op.E].Target < 0 {
				tr.cs.Label("relation removed/swapped: target reset")
			}
		}
	case core.OpReset:
		tr.written = map[int]int{}
	}
	if op.Ill != "" {
		tr.cs.Label("illegal: " + op.Ill + " via " + op.K)
	}
}

func c05Mix() core.Mix {
	m := relMixWithReset()
	m[core.OpLockedRegistration] = 1
	return m
}

func TestC05(t *testing.T) {
	runSimProp(t, &simProp{
		ID: "C05",
		Cfg: core.SimConfig{
			Prop:            "C05",
			Owned:           core.Own(core.CatRelation, core.CatPanicRelation, core.CatDeadTarget, core.CatCorrupt),
			Verify:          core.FullVerify,
			CheckRelQueries: true,

			RelQueriesRegistered: true,
			// what counts as a relation component is fixed by the type (Relation embedded first): a
			// plain type must not be usable in relation calls, whatever happened to the registry before
			OwnedIf: func(s *core.Sim, f *core.Finding) bool {
				return f.Cat == core.CatIllegal && strings.Contains(f.Msg, "relation call naming a plain component")
			},
		},
		Mix:      c05Mix(),
		MaxPlain: 4, MinRel: 1, MaxRel: 3,
		Setup: func(rt *rapid.T, sim *core.Sim, g *core.Gen) {
			g.Illegal = []string{core.IllDeadTarget, core.IllDeadTarget, core.IllSecondRel, core.IllRelMissing, core.IllNoBuilderRel, core.IllRelNotRel}
			g.IllegalPct = 12
			g.TargetRemovalPct = 30
		},
		Rule:    "relation-centred histories: Builder creation with targets, Relations.Set/Exchange, World.Add/Remove/Exchange/Assign of relation and other components, Builder.Add, all batch forms, removal of targets; targets drawn from {zero, alive, the entity itself, existing parents} and - as injected faults - dead handles (incl. ones whose id is alive again) through every API that takes a target, plus second relation components; oracle after every op: Relations.Get/GetUnchecked and Query.Relation equal the model's last assigned target (zero after the relation was removed, re-added or swapped), Query(RelationFilter(All(r),t)) for every relation component r and every target t in use (or dead) selects exactly the model's set - through the plain filter and through the same filter kept registered since the pair was first seen, also across Reset -, every dead-target or second-relation call panics and changes nothing; non-trivial = an explicit non-zero target assignment followed by a later Add/Remove/Exchange/Assign on the same entity (kept or reset per the rules) and the read-back",
		Observe: observeC05,
	})
}
