package props

// C19, shared-checkpoint part: several worlds loaded from ONE entity dump stay independent.

import (
	"fmt"
	"reflect"
	"sync"
	"testing"

	"verifharness/core"

	"github.com/mlange-42/arche/ecs"
	"pgregory.net/rapid"
)

type c19DumpCase struct {
	Property string      `json:"property"`
	Test     string      `json:"test"`
	Build    string      `json:"build"`
	Message  string      `json:"message"`
	SrcCap   int         `json:"srccap"`
	Pre      []c17Step   `json:"pre"`     // history of the source world before the dump
	Caps     []int       `json:"caps"`    // capacity increment of each loading world
	Scripts  [][]c17Step `json:"scripts"` // what each loaded world does afterwards
	Order    []int       `json:"order"`   // interleaving of the one-goroutine phase
}

// dumpRunner drives one world with entity-only steps and records everything it returns.
type dumpRunner struct {
	w     *ecs.World
	alive []ecs.Entity
	all   []ecs.Entity
	trace []string
}

func (r *dumpRunner) state() string {
	s := make([]byte, len(r.all))
	for i, h := range r.all {
		s[i] = '0'
		if r.w.Alive(h) {
			s[i] = '1'
		}
	}
	return fmt.Sprintf("%s used=%d", s, r.w.Stats().Entities.Used)
}

func (r *dumpRunner) step(st c17Step) {
	got := []ecs.Entity{}
	switch st.K {
	case "new":
		got = append(got, r.w.NewEntity())
	case "batch":
		q := ecs.NewBuilder(r.w).NewBatchQ(st.N%5 + 1)
		for q.Next() {
			got = append(got, q.Entity())
		}
	case "rm":
		if len(r.alive) > 0 {
			k := st.N % len(r.alive)
			r.w.RemoveEntity(r.alive[k])
			r.alive = append(r.alive[:k], r.alive[k+1:]...)
		}
	}
	r.alive = append(r.alive, got...)
	r.all = append(r.all, got...)
	r.trace = append(r.trace, fmt.Sprintf("%s(%d) -> %v | %s", st.K, st.N, got, r.state()))
}

func copyDump(d *ecs.EntityDump) ecs.EntityDump {
	return ecs.EntityDump{Entities: append([]ecs.Entity{}, d.Entities...), Alive: append([]uint32{}, d.Alive...), Next: d.Next, Available: d.Available}
}

// newDumpRunner loads d into a fresh world.
func newDumpRunner(capInc int, d *ecs.EntityDump, issued []ecs.Entity) *dumpRunner {
	w := ecs.NewWorld(ecs.NewConfig().WithCapacityIncrement(capInc))
	r := &dumpRunner{w: &w}
	r.w.LoadEntities(d)
	r.all = append([]ecs.Entity{}, issued...)
	for _, h := range issued {
		if r.w.Alive(h) {
			r.alive = append(r.alive, h)
		}
	}
	r.trace = append(r.trace, "loaded | "+r.state())
	return r
}

func runC19Dump(c *c19DumpCase) (msg string) {
	defer func() {
		if p := recover(); p != nil {
			msg = fmt.Sprintf("panic: %v", p)
		}
	}()
	// the source world and its dump
	sw := ecs.NewWorld(ecs.NewConfig().WithCapacityIncrement(c.SrcCap))
	src := &dumpRunner{w: &sw}
	for _, st := range c.Pre {
		src.step(st)
	}
	D := src.w.DumpEntities()
	ref := copyDump(&D)
	issued := append([]ecs.Entity{}, src.all...)
	n := len(c.Caps)
	// alone: every world loads a private copy of the dump and runs its script
	alone := make([][]string, n)
	for i := 0; i < n; i++ {
		private := copyDump(&D)
		r := newDumpRunner(c.Caps[i], &private, issued)
		for _, st := range c.Scripts[i] {
			r.step(st)
		}
		alone[i] = r.trace
	}
	// one goroutine, all worlds loaded from the SAME dump, steps interleaved
	rs := make([]*dumpRunner, n)
	for i := 0; i < n; i++ {
		rs[i] = newDumpRunner(c.Caps[i], &D, issued)
	}
	next := make([]int, n)
	step := func(i int) string {
		before := make([]string, n)
		for j := range rs {
			if j != i {
				before[j] = rs[j].state()
			}
		}
		st := c.Scripts[i][next[i]]
		rs[i].step(st)
		next[i]++
		for j := range rs {
			if j != i && rs[j].state() != before[j] {
				return fmt.Sprintf("%s(%d) on world %d changed world %d (both were loaded from the same dump): alive answers %s, before %s", st.K, st.N, i, j, rs[j].state(), before[j])
			}
		}
		return ""
	}
	for _, i := range c.Order {
		i %= n
		if next[i] < len(c.Scripts[i]) {
			if m := step(i); m != "" {
				return m
			}
		}
	}
	for i := range rs {
		for next[i] < len(c.Scripts[i]) {
			if m := step(i); m != "" {
				return m
			}
		}
		if d := firstDiff(alone[i], rs[i].trace); d != "" {
			return fmt.Sprintf("world %d, loaded from a dump that other worlds were loaded from too, behaves differently from a world loaded from a private copy: %s", i, d)
		}
	}
	if !reflect.DeepEqual(D.Entities, ref.Entities) || !reflect.DeepEqual(D.Alive, ref.Alive) || D.Next != ref.Next || D.Available != ref.Available {
		return "the dump changed while the worlds loaded from it went on"
	}
	// concurrently: one goroutine per world, each loads the same dump and runs its script
	traces := make([][]string, n)
	msgs := make([]string, n)
	var wg sync.WaitGroup
	start := make(chan struct{})
	for i := 0; i < n; i++ {
		wg.Add(1)
		go func(i int) {
			defer wg.Done()
			defer func() {
				if p := recover(); p != nil {
					msgs[i] = fmt.Sprintf("panic: %v", p)
				}
			}()
			<-start
			r := newDumpRunner(c.Caps[i], &D, issued)
			for _, st := range c.Scripts[i] {
				r.step(st)
			}
			traces[i] = r.trace
		}(i)
	}
	close(start)
	wg.Wait()
	for i := 0; i < n; i++ {
		if msgs[i] != "" {
			return fmt.Sprintf("world %d, loaded from the shared dump and driven concurrently with %d others: %s", i, n-1, msgs[i])
		}
		if d := firstDiff(alone[i], traces[i]); d != "" {
			return fmt.Sprintf("world %d, loaded from the shared dump, behaves differently when %d other worlds loaded from it are driven concurrently: %s", i, n-1, d)
		}
	}
	return ""
}

func TestC19Dump(t *testing.T) {
	withStats(t, "C19", func(st *core.Stats) {
		st.Rule = "shared-checkpoint part: a source world (generated capacity increment, generated creations/batch creations/removals) is dumped once; 2-4 fresh worlds of generated capacity increments load that SAME EntityDump value and then each run their own generated script of NewEntity/NewBatchQ/RemoveEntity. Reference: each world loaded from a private deep copy, alone. Then (a) all worlds loaded from the one dump, steps interleaved in one goroutine: after every step the Alive answers and used count of every OTHER world are unchanged, every trace (issued handles, alive answers) equals the reference, the dump is unchanged; (b) the same concurrently, one goroutine per world behind a barrier, under the race detector; non-trivial = >= 2 worlds that each create and remove at least once, from a dump with alive entities and a non-empty free list"
		if path, ok := replaying(); ok {
			var c c19DumpCase
			if err := core.ReadReplay(path, &c); err != nil {
				t.Fatalf("cannot read replay: %v", err)
			}
			for rep := 0; rep < 20; rep++ {
				if msg := runC19Dump(&c); msg != "" {
					t.Fatalf("C19 violated: %s", msg)
				}
			}
			return
		}
		genSteps := func(rt *rapid.T, n int, kinds []string, label string) []c17Step {
			out := []c17Step{}
			for i := 0; i < n; i++ {
				out = append(out, c17Step{K: rapid.SampledFrom(kinds).Draw(rt, label+"k"), N: rapid.IntRange(0, 40).Draw(rt, label+"n")})
			}
			return out
		}
		rapid.Check(t, func(rt *rapid.T) {
			caps := []int{1, 2, 3, 4, 8, 128}
			c := &c19DumpCase{Property: "C19", Test: "TestC19Dump", Build: core.BuildName(), SrcCap: rapid.SampledFrom(caps).Draw(rt, "srccap")}
			c.Pre = genSteps(rt, rapid.IntRange(1, 40).Draw(rt, "npre"), []string{"new", "new", "batch", "batch", "rm"}, "pre")
			n := rapid.IntRange(2, 4).Draw(rt, "nworlds")
			total, busy := 0, 0
			for i := 0; i < n; i++ {
				c.Caps = append(c.Caps, rapid.SampledFrom(caps).Draw(rt, "cap"))
				s := genSteps(rt, rapid.IntRange(1, 20).Draw(rt, "nscript"), []string{"new", "new", "batch", "rm", "rm"}, "s")
				c.Scripts = append(c.Scripts, s)
				total += len(s)
				cr, rm := false, false
				for _, x := range s {
					cr = cr || x.K != "rm"
					rm = rm || x.K == "rm"
				}
				if cr && rm {
					busy++
				}
			}
			for k := 0; k < total; k++ {
				c.Order = append(c.Order, rapid.IntRange(0, n-1).Draw(rt, "turn"))
			}
			cs := st.Begin()
			defer cs.End()
			cs.Feed(fmt.Sprintf("%+v", *c))
			cs.Sample(func() any { return c })
			cs.Label(fmt.Sprintf("shared dump, worlds=%d", n))
			nrm, ncr := 0, 0
			for _, x := range c.Pre {
				if x.K == "rm" {
					nrm++
				} else {
					ncr++
				}
			}
			if busy >= 2 && nrm >= 1 && ncr >= 2 {
				cs.NonTrivial()
			}
			writeCurrentCaseAny(c)
			if msg := runC19Dump(c); msg != "" {
				c.Message = msg
				core.WriteFail(c)
				rt.Fatalf("C19 violated: %s", msg)
			}
		})
	})
}
