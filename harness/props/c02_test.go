package props

// C02 — entity handles: alive until removed, never alive again, never shared.

import (
	"strings"
	"testing"

	"verifharness/core"

	"pgregory.net/rapid"
)

func TestC02(t *testing.T) {
	runSimProp(t, &simProp{
		ID: "C02",
		Cfg: core.SimConfig{
			Prop:   "C02",
			Owned:  core.Own(core.CatHandles, core.CatInvPool, core.CatInvIndex, core.CatPanicCreate, core.CatObserve, core.CatScan, core.CatCorrupt),
			Verify: core.VerifyOpts{Values: false, Relations: false, Scan: true, Hooks: true, Dead: true},
			// the query returned by NewBatchQ is a creation call's way of returning handles: what it
			// reports through Next/Entity and EntityAt(i) must be the new handles
			OwnedIf: func(s *core.Sim, f *core.Finding) bool {
				if len(s.Ops) == 0 {
					return false
				}
				last := s.Ops[len(s.Ops)-1].K
				if f.Cat == core.CatBatchQuery && last == core.OpBuildBatch {
					return true
				}
				// a creation call that was refused (it panicked) has created nothing
				creation := last == core.OpNew || last == core.OpNewWith || last == core.OpBuildNew || last == core.OpBuildBatch
				return f.Cat == core.CatIllegal && creation && strings.Contains(f.Msg, "rejected call changed")
			},
		},
		Once: func(t *testing.T, st *core.Stats) {
			// beyond the generated sizes: 16-bit boundaries of entity ids and table rows
			for _, n := range []int{65537, 70001} {
				if msg := bigWorldProbe(n, false); msg != "" {
					probeFail(t, "C02", "bigworld", msg)
				}
				st.Count("big_world_probes", 1)
			}
		},
		Mix: core.Mix{
			core.OpNew: 10, core.OpNewWith: 3, core.OpBuildNew: 5, core.OpBuildBatch: 12,
			core.OpRemoveEnt: 22, core.OpRemoveEnts: 5, core.OpReset: 1, core.OpDumpLoad: 2, core.OpDumpSave: 2, core.OpDumpRestore: 2,
			core.OpAdd: 3, core.OpRemove: 2, core.OpRelSet: 2, core.OpBatchAdd: 1,
			core.OpRegister: 2, core.OpUnregister: 1, "useRegistered": 30,
		},
		Lim:      core.Limits{MaxAlive: 330, MaxTotal: 1200, MaxBatch: 7, MaxSlots: 2},
		MaxPlain: 3, MaxRel: 1,
		Setup: func(rt *rapid.T, sim *core.Sim, g *core.Gen) {
			g.BigBatch = true
			// now and then a creation call with illegal arguments: refused, and nothing is created
			g.Illegal = []string{core.IllCount, core.IllDeadTarget, core.IllRelMissing, core.IllRelNotRel, core.IllNoBuilderRel}
			g.IllegalPct = 4
		},
		Rule: "histories of single and batch creations (counts 1-7, 10% up to 300), single removals, RemoveEntities(filter), Reset, DumpEntities+Reset+LoadEntities, and DumpEntities ... further history ... Reset+LoadEntities of the earlier dump (the entity state must be the one of dump time); after EVERY op: Alive of every handle issued since the last reset equals the model, new handles are non-zero and were never issued before, no two alive handles share an id, zero entity dead, Stats.Used == creations-removals, Query(All()) yields exactly the alive set, entity-pool free-list invariant; non-trivial = some id was recycled at least twice (generation >= 2) and a batch creation received recycled and fresh ids together",
		Observe: func(tr *tracker, op *core.Op) {
			b := tr.sim.B
			maxGen := uint32(0)
			for _, h := range b.H {
				if h.Generation() > maxGen {
					maxGen = h.Generation()
				}
			}
			if maxGen >= 2 {
				tr.flag("gen>=2")
			}
			if op.K == core.OpBuildBatch && op.N >= 2 && len(b.H) >= op.N {
				rec, fresh := false, false
				for _, h := range b.H[len(b.H)-op.N:] {
					if h.Generation() > 0 {
						rec = true
					} else {
						fresh = true
					}
				}
				if rec && fresh {
					tr.flag("mixed-batch")
					tr.cs.Label("batch creation with recycled+fresh ids")
				}
				if op.N > 128 {
					tr.cs.Label("batch creation > 128")
				}
			}
			if tr.flags["gen>=2"] && tr.flags["mixed-batch"] {
				tr.cs.NonTrivial()
			}
			switch {
			case maxGen >= 8:
				tr.cs.Label("recycling depth >= 8")
			case maxGen >= 3:
				tr.cs.Label("recycling depth >= 3")
			}
		},
	})
}
