package props

// C11 — entity events are complete and truthful: replaying them rebuilds the world.

import (
	"pgregory.net/rapid"
	"strings"
	"testing"

	"verifharness/core"
)

func TestC11(t *testing.T) {
	mix := fullMix()
	mix[core.OpRelSet] = 10
	mix[core.OpRegister] = 2
	mix[core.OpUnregister] = 1
	mix["useRegistered"] = 30 // batch calls also through registered filters
	mix[core.OpRelExchange] = 8
	mix[core.OpBatchSetRel] = 5
	mix[core.OpRelExchB] = 5
	mix[core.OpExchange] = 10
	mix[core.OpReset] = 1
	runSimProp(t, &simProp{
		ID: "C11",
		Cfg: core.SimConfig{
			Prop:           "C11",
			Owned:          core.Own(core.CatEvents, core.CatPanicListener, core.CatEventValues),
			Verify:         core.FullVerify,
			Listener:       "full",
			CheckEvents:    true,
			NoListenerTwin: true,
			// a refused call (it panicked) has changed nothing: otherwise the world holds changes that no
			// event announced, and replaying the stream no longer rebuilds it
			OwnedIf: func(s *core.Sim, f *core.Finding) bool {
				return f.Cat == core.CatIllegal && strings.Contains(f.Msg, "rejected call changed")
			},
		},
		Mix:      mix,
		MaxPlain: 4, MaxRel: 3,
		Setup: func(rt *rapid.T, sim *core.Sim, g *core.Gen) {
			g.Illegal = []string{core.IllCount, core.IllDeadTarget, core.IllRelMissing, core.IllRelNotRel, core.IllNoBuilderRel, core.IllAddPresent, core.IllRemoveAbsent}
			g.IllegalPct = 4
		},
		Rule: "histories over all mutating operations (single, batch, Q variants, with and without relation targets, incl. calls that change nothing) on a world whose listener subscribes to everything, in lock-step with a twin world without listener; oracle per op: exactly one event per entity the model says changed and none otherwise; Added/Removed masks and AddedIDs/RemovedIDs == difference of the component sets; OldRelation/NewRelation/OldTarget == relation and target before/after; type bits == bits derived from the documented table (created/removed, component added/removed, relation changed, target changed); delivery: non-removal events with the world unlocked and the entity already in its final state (new target readable), removal events with the world locked, the entity alive and inspectable and a structural call panicking; Q variants: no event before the returned query is closed/exhausted; since the model is rebuilt from exactly these per-entity differences, agreement of every event with the model's change is the replay oracle; a call that panics only in the world with the listener is reported; non-trivial = at least one event carrying RelationChanged/TargetChanged",
		Observe: func(tr *tracker, op *core.Op) {
			if tr.sim.Flags["events.relation"] > 0 {
				tr.cs.NonTrivial()
			}
		},
	})
}
