package props

// C09, removal-window part with a listener that changes the installed listener from inside the
// removal notification (a one-shot listener un-installs itself; a hand-over installs another one):
// the lock taken for the window in which removal events are delivered is released exactly once,
// whatever the callback does to the listener slot.
//
// Only shapes that the unchanged code supports are generated: World.RemoveEntity, and
// Batch.RemoveEntities through a filter that matches exactly ONE entity when the callback
// un-installs the listener (with several matches the batch path goes on using the listener slot).

import (
	"fmt"
	"testing"

	"verifharness/core"

	"github.com/mlange-42/arche/ecs"
	"github.com/mlange-42/arche/ecs/event"
	"pgregory.net/rapid"
)

type c09OneShotCase struct {
	Property string  `json:"property"`
	Test     string  `json:"test"`
	Build    string  `json:"build"`
	Message  string  `json:"message"`
	Masks    []uint8 `json:"masks"`  // component set (bits 0..2) of each entity
	Victim   int     `json:"victim"` // entity to remove
	Batch    bool    `json:"batch"`  // through Batch.RemoveEntities(exclusive filter of the victim's set)
	After    int     `json:"after"`  // what the callback does: 0 SetListener(nil), 1 SetListener(other), 2 nothing
	Subs     uint8   `json:"subs"`   // subscription beyond EntityRemoved
	Rounds   int     `json:"rounds"` // repeat: re-install and remove another entity
}

type oneShot struct {
	subs   event.Subscription
	fn     func(w *ecs.World, e ecs.EntityEvent)
	events int
}

func (l *oneShot) Notify(w *ecs.World, e ecs.EntityEvent) { l.events++; l.fn(w, e) }
func (l *oneShot) Subscriptions() event.Subscription      { return l.subs }
func (l *oneShot) Components() *ecs.Mask                  { return nil }

type osA struct{ V int }
type osB struct{ V [2]int64 }
type osC struct{}

func runC09OneShot(c *c09OneShotCase) (msg string) {
	defer func() {
		if p := recover(); p != nil {
			msg = fmt.Sprintf("panic: %v", p)
		}
	}()
	w := ecs.NewWorld()
	ids := []ecs.ID{ecs.ComponentID[osA](&w), ecs.ComponentID[osB](&w), ecs.ComponentID[osC](&w)}
	compsOf := func(m uint8) []ecs.ID {
		out := []ecs.ID{}
		for b := 0; b < 3; b++ {
			if m&(1<<b) != 0 {
				out = append(out, ids[b])
			}
		}
		return out
	}
	ents := []ecs.Entity{}
	for _, m := range c.Masks {
		ents = append(ents, w.NewEntity(compsOf(m)...))
	}
	alive := make([]bool, len(ents))
	for i := range alive {
		alive[i] = true
	}
	victim := c.Victim % len(ents)
	for round := 0; round <= c.Rounds; round++ {
		// next alive victim
		for k := 0; k < len(ents) && !alive[victim]; k++ {
			victim = (victim + 1) % len(ents)
		}
		if !alive[victim] {
			break
		}
		same := 0
		for i, m := range c.Masks {
			if alive[i] && m == c.Masks[victim] {
				same++
			}
		}
		batch := c.Batch && (same == 1 || c.After != 0)
		other := &oneShot{subs: event.EntityRemoved | event.Subscription(c.Subs), fn: func(*ecs.World, ecs.EntityEvent) {}}
		var ls *oneShot
		lockedInside, blockedInside := true, true
		ls = &oneShot{subs: event.EntityRemoved | event.Subscription(c.Subs), fn: func(cw *ecs.World, e ecs.EntityEvent) {
			if !e.Contains(event.EntityRemoved) {
				return
			}
			if ls.events > 1 && c.After == 0 {
				return
			}
			lockedInside = lockedInside && cw.IsLocked()
			blockedInside = blockedInside && core.Call(func() { cw.NewEntity() }) != nil
			switch c.After {
			case 0:
				cw.SetListener(nil)
			case 1:
				cw.SetListener(other)
			}
		}}
		w.SetListener(ls)
		var p any
		what := fmt.Sprintf("RemoveEntity(%v)", ents[victim])
		removed := 1
		if batch {
			f := ecs.All(compsOf(c.Masks[victim])...).Exclusive()
			what = fmt.Sprintf("Batch.RemoveEntities(exclusive filter matching %d)", same)
			p = core.Call(func() { removed = w.Batch().RemoveEntities(&f) })
			for i, m := range c.Masks {
				if alive[i] && m == c.Masks[victim] {
					alive[i] = false
				}
			}
			if p == nil && removed != same {
				return fmt.Sprintf("round %d: %s removed %d entities", round, what, removed)
			}
		} else {
			p = core.Call(func() { w.RemoveEntity(ents[victim]) })
			alive[victim] = false
		}
		how := []string{"un-installed the listener", "installed another listener", "left the listener alone"}[c.After]
		if p != nil {
			return fmt.Sprintf("round %d: %s with a listener that %s inside the removal notification panicked: %v", round, what, how, p)
		}
		if ls.events+other.events == 0 {
			return fmt.Sprintf("round %d: %s delivered no removal event", round, what)
		}
		if !lockedInside || !blockedInside {
			return fmt.Sprintf("round %d: %s: inside the removal notification IsLocked and the refusal of NewEntity were %v/%v", round, what, lockedInside, blockedInside)
		}
		if w.IsLocked() || w.Stats().Locked {
			return fmt.Sprintf("round %d: the world is still locked after %s returned (no query is open; the listener %s inside the removal notification)", round, what, how)
		}
		for i, e := range ents {
			if w.Alive(e) != alive[i] {
				return fmt.Sprintf("round %d: after %s entity %d alive=%v, expected %v", round, what, i, w.Alive(e), alive[i])
			}
		}
		// once unlocked, structural calls succeed again (without listener, so nothing is delivered)
		w.SetListener(nil)
		if p := core.Call(func() {
			e := w.NewEntity(ids[0])
			w.Add(e, ids[1])
			w.RemoveEntity(e)
			q := w.Query(ecs.All())
			q.Close()
		}); p != nil {
			return fmt.Sprintf("round %d: structural calls after %s panic: %v", round, what, p)
		}
		if w.IsLocked() {
			return fmt.Sprintf("round %d: locked after a closed query following %s", round, what)
		}
	}
	return ""
}

func TestC09OneShot(t *testing.T) {
	withStats(t, "C09", func(st *core.Stats) {
		st.Rule = "removal-window part with a listener that changes the listener slot inside the removal notification (un-installs itself = one-shot listener, or hands over to another listener, or neither): generated small worlds (1-8 entities over 3 component types), a generated victim, removal by World.RemoveEntity or by Batch.RemoveEntities through the exclusive filter of the victim's component set (with un-installing only when exactly one entity matches: the only shape the unchanged code supports), repeated for up to 3 rounds; inside the notification the world is locked and refuses NewEntity, after the call returns it is unlocked (IsLocked, Stats.Locked) and structural calls and a query succeed; non-trivial = the listener slot was changed inside the notification"
		if path, ok := replaying(); ok {
			var c c09OneShotCase
			if err := core.ReadReplay(path, &c); err != nil {
				t.Fatalf("cannot read replay: %v", err)
			}
			if msg := runC09OneShot(&c); msg != "" {
				t.Fatalf("C09 violated: %s", msg)
			}
			return
		}
		rapid.Check(t, func(rt *rapid.T) {
			c := &c09OneShotCase{Property: "C09", Test: "TestC09OneShot", Build: core.BuildName()}
			n := rapid.IntRange(1, 8).Draw(rt, "n")
			for i := 0; i < n; i++ {
				c.Masks = append(c.Masks, uint8(rapid.IntRange(0, 7).Draw(rt, "mask")))
			}
			c.Victim = rapid.IntRange(0, n-1).Draw(rt, "victim")
			c.Batch = rapid.Bool().Draw(rt, "batch")
			c.After = rapid.SampledFrom([]int{0, 0, 1, 2}).Draw(rt, "after")
			c.Subs = uint8(rapid.IntRange(0, 255).Draw(rt, "subs"))
			c.Rounds = rapid.IntRange(0, 2).Draw(rt, "rounds")
			cs := st.Begin()
			defer cs.End()
			cs.Feed(fmt.Sprintf("%+v", *c))
			cs.Sample(func() any { return c })
			cs.Label(fmt.Sprintf("listener slot changed inside removal notification: after=%d batch=%v", c.After, c.Batch))
			if c.After != 2 {
				cs.NonTrivial()
			}
			writeCurrentCaseAny(c)
			if msg := runC09OneShot(c); msg != "" {
				c.Message = msg
				core.WriteFail(c)
				rt.Fatalf("C09 violated: %s", msg)
			}
		})
	})
}
