package props

// C13 — determinism: same operations, same handles, same iteration order, same events.

import (
	"fmt"
	"runtime/debug"
	"testing"

	"verifharness/core"

	"pgregory.net/rapid"
)

func c13Config() core.SimConfig {
	return core.SimConfig{
		Prop:        "C13",
		Owned:       core.Own(core.CatDeterminism),
		Verify:      core.FullVerify,
		Listener:    "full",
		CheckEvents: false,
		Trace:       true,
	}
}

// rerunAndCompare executes ops on a second fresh world, with garbage collections forced where
// an op says so, and compares the traces step by step.
func rerunAndCompare(t core.Failer, first *core.Sim, ops []core.Op, st *core.Stats) {
	second := core.NewSim(t, c13Config(), first.M.U, st, nil)
	old := debug.SetGCPercent(25)
	defer debug.SetGCPercent(old)
	for i, op := range ops {
		second.Apply(op)
		if second.Done() {
			return // out of scope, or reported by the second run itself
		}
		if i >= len(first.Trace) || i >= len(second.Trace) {
			break
		}
		if first.Trace[i] != second.Trace[i] {
			second.Cfg.Owned[core.CatDeterminism] = true
			second.Report(&core.Finding{Cat: core.CatDeterminism, Msg: fmt.Sprintf("two fresh worlds diverge at op %d (%s): first run\n%s\nsecond run (with forced GCs)\n%s", i, op.Describe(), first.Trace[i], second.Trace[i])})
			return
		}
	}
}

func TestC13(t *testing.T) {
	mix := fullMix()
	mix[core.OpRegister] = 4
	mix[core.OpUnregister] = 1
	mix[core.OpReset] = 1
	mix[core.OpQuery] = 6
	mix[core.OpRelSet] = 10
	mix[core.OpRemoveEnt] = 12
	mix[core.OpRemoveEnts] = 4
	mix["useRegistered"] = 40
	var digest uint64
	runSimProp(t, &simProp{
		ID:       "C13",
		Cfg:      c13Config(),
		Mix:      mix,
		MaxPlain: 4, MaxRel: 3,
		Setup: func(rt *rapid.T, sim *core.Sim, g *core.Gen) {
			g.TargetRemovalPct = 30
			g.DeadFilterTargets = true
		},
		Rule: "histories over everything (several targets and tables per relation node, registered filters, Reset, batch operations, events); run A executes the history on a fresh world and records a trace per op: returned handles, counts, the iteration order of scripted queries, of Query(All()) and of every registered filter, the event sequence with content, DumpEntities and the digest of the hidden state; run B executes the same ops on a second fresh world with GC percent 25 and runtime.GC() forced before generated ops; the traces must be identical step by step; both tiers additionally run the same seeds in 2 (quick) or 3 (thorough) separate OS processes (different hash seeds, different addresses, GOGC=100 / 5 / off, GOMAXPROCS default / 1 / 4) and compares the digests of all traces; non-trivial = >= 3 tables in one relation node at some point and a registered filter in the history",
		Observe: func(tr *tracker, op *core.Op) {
			active, _, _ := core.TableCounts(tr.sim.B.W)
			if active >= 3 || (active < 0 && len(tr.sim.DeadTargets) > 0) {
				tr.flag("tables>=3")
			}
			if op.K == core.OpRegister {
				tr.flag("registered")
			}
			if tr.flags["tables>=3"] && tr.flags["registered"] {
				tr.cs.NonTrivial()
			}
		},
		Finish: func(rt *rapid.T, sim *core.Sim, tr *tracker) {
			ops := make([]core.Op, len(sim.Ops))
			copy(ops, sim.Ops)
			for i := range ops {
				ops[i].GC = rapid.IntRange(0, 4).Draw(rt, "gc") == 0
			}
			rerunAndCompare(rt, sim, ops, nil)
			digest ^= core.TraceDigest(sim.Trace) * 1099511628211
		},
		Replay: func(t *testing.T, r *core.Replay, st *core.Stats) {
			first := core.NewSim(t, c13Config(), r.Universe, st, nil)
			for _, op := range r.Ops {
				op.GC = false
				first.Apply(op)
				if first.Done() {
					return
				}
			}
			rerunAndCompare(t, first, r.Ops, st)
		},
		AtEnd: func(st *core.Stats) { st.Digest = fmt.Sprintf("%016x", digest) },
	})
}
