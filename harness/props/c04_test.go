package props

// C04 — Masks are sets of component IDs; filters match exactly per their definition.
//
// Oracle: a []bool set model for ecs.Mask, and the boolean evaluator core.F.Eval (written from
// the doc comments, shares no code with ecs.Mask) for filters.

import (
	"fmt"
	"sort"
	"testing"

	"verifharness/core"

	"github.com/mlange-42/arche/ecs"
	"pgregory.net/rapid"
)

type maskOp struct {
	K  string `json:"k"` // set | reset | and | or | xor | not | all
	ID int    `json:"id,omitempty"`
	V  bool   `json:"v,omitempty"`
}

type maskCase struct {
	Kind string   `json:"kind"` // "mask"
	A    []int    `json:"a"`
	B    []int    `json:"b"`
	Ops  []maskOp `json:"ops"`
}

type filterCase struct {
	Kind string  `json:"kind"` // "filter"
	F    *core.F `json:"f"`
	Sets [][]int `json:"sets"`
}

type c04Replay struct {
	Property string      `json:"property"`
	Build    string      `json:"build"`
	Message  string      `json:"message"`
	Mask     *maskCase   `json:"mask,omitempty"`
	Filter   *filterCase `json:"filter,omitempty"`
	Enum     string      `json:"enum,omitempty"`
}

func words(ids []int) int {
	w := map[int]bool{}
	for _, i := range ids {
		w[i/64] = true
	}
	return len(w)
}

func modelOf(n int, ids []int) []bool {
	m := make([]bool, n)
	for _, i := range ids {
		m[i] = true
	}
	return m
}

func subset(a, b []bool) bool { // a ⊆ b
	for i := range a {
		if a[i] && !b[i] {
			return false
		}
	}
	return true
}

func intersects(a, b []bool) bool {
	for i := range a {
		if a[i] && b[i] {
			return true
		}
	}
	return false
}

func maskEquals(m *ecs.Mask, model []bool, ids []ecs.ID) (int, bool) {
	for i := range model {
		if m.Get(ids[i]) != model[i] {
			return i, false
		}
	}
	return 0, true
}

// checkMaskCase runs one mask case; returns an error message or "".
func checkMaskCaseRaw(c *maskCase) string {
	ids := core.RawIDs()
	n := len(ids)
	toIDs := func(v []int) []ecs.ID {
		out := make([]ecs.ID, len(v))
		for i, x := range v {
			out[i] = ids[x]
		}
		return out
	}
	ma, mb := ecs.All(toIDs(c.A)...), ecs.All(toIDs(c.B)...)
	modA, modB := modelOf(n, c.A), modelOf(n, c.B)
	if i, ok := maskEquals(&ma, modA, ids); !ok {
		return fmt.Sprintf("All(A): bit %d differs from the set model", i)
	}
	if i, ok := maskEquals(&mb, modB, ids); !ok {
		return fmt.Sprintf("All(B): bit %d differs from the set model", i)
	}
	var m ecs.Mask
	mod := make([]bool, n)

	verify := func(step string) string {
		if i, ok := maskEquals(&m, mod, ids); !ok {
			return fmt.Sprintf("after %s: Get(%d)=%v, set model says %v", step, i, m.Get(ids[i]), mod[i])
		}
		cnt := 0
		for _, b := range mod {
			if b {
				cnt++
			}
		}
		if m.TotalBitsSet() != cnt {
			return fmt.Sprintf("after %s: TotalBitsSet=%d, set has %d members", step, m.TotalBitsSet(), cnt)
		}
		if m.IsZero() != (cnt == 0) {
			return fmt.Sprintf("after %s: IsZero=%v, set has %d members", step, m.IsZero(), cnt)
		}
		for _, o := range []struct {
			name string
			mk   *ecs.Mask
			md   []bool
		}{{"A", &ma, modA}, {"B", &mb, modB}} {
			if got, want := m.Contains(o.mk), subset(o.md, mod); got != want {
				return fmt.Sprintf("after %s: M.Contains(%s)=%v, want %v", step, o.name, got, want)
			}
			if got, want := o.mk.Contains(&m), subset(mod, o.md); got != want {
				return fmt.Sprintf("after %s: %s.Contains(M)=%v, want %v", step, o.name, got, want)
			}
			if got, want := m.ContainsAny(o.mk), intersects(o.md, mod); got != want {
				return fmt.Sprintf("after %s: M.ContainsAny(%s)=%v, want %v", step, o.name, got, want)
			}
			if got, want := o.mk.ContainsAny(&m), intersects(o.md, mod); got != want {
				return fmt.Sprintf("after %s: %s.ContainsAny(M)=%v, want %v", step, o.name, got, want)
			}
			// Mask as a Filter: matches the sets that contain all of its IDs.
			if got, want := m.Matches(o.mk), subset(mod, o.md); got != want {
				return fmt.Sprintf("after %s: M.Matches(%s)=%v, want %v", step, o.name, got, want)
			}
			// operands are never modified by queries
			if i, ok := maskEquals(o.mk, o.md, ids); !ok {
				return fmt.Sprintf("after %s: operand %s changed at bit %d", step, o.name, i)
			}
		}
		return ""
	}
	if msg := verify("init"); msg != "" {
		return msg
	}
	for k, op := range c.Ops {
		step := fmt.Sprintf("op %d (%s)", k, op.K)
		before := m
		switch op.K {
		case "set":
			m.Set(ids[op.ID], op.V)
			mod[op.ID] = op.V
		case "reset":
			m.Reset()
			for i := range mod {
				mod[i] = false
			}
		case "all":
			m = ecs.All(toIDs(c.A)...)
			copy(mod, modA)
		case "and", "or", "xor":
			var r ecs.Mask
			switch op.K {
			case "and":
				r = m.And(&mb)
			case "or":
				r = m.Or(&mb)
			default:
				r = m.Xor(&mb)
			}
			if m != before {
				return fmt.Sprintf("%s modified its receiver", step)
			}
			m = r
			for i := range mod {
				switch op.K {
				case "and":
					mod[i] = mod[i] && modB[i]
				case "or":
					mod[i] = mod[i] || modB[i]
				default:
					mod[i] = mod[i] != modB[i]
				}
			}
		case "not":
			r := m.Not()
			if m != before {
				return fmt.Sprintf("%s modified its receiver", step)
			}
			m = r
			for i := range mod {
				mod[i] = !mod[i]
			}
		default:
			return "bad op " + op.K
		}
		if msg := verify(step); msg != "" {
			return msg
		}
	}
	return ""
}

// checkFilterCase evaluates the compiled filter on every listed component set.
func checkFilterCaseRaw(c *filterCase) string {
	ids := core.RawIDs()
	flt := c.F.Compile(func(i int) ecs.ID { return ids[i] }, nil)
	for _, set := range c.Sets {
		in := map[int]bool{}
		lst := make([]ecs.ID, 0, len(set))
		for _, s := range set {
			if !in[s] {
				lst = append(lst, ids[s])
			}
			in[s] = true
		}
		bits := ecs.All(lst...)
		want := c.F.Eval(func(k int) bool { return in[k] }, len(in))
		got := flt.Matches(&bits)
		if got != want {
			return fmt.Sprintf("filter %s on set %v: Matches=%v, definition says %v", c.F.String(), set, got, want)
		}
	}
	return ""
}

func genIDSet(n int, maxLen int) *rapid.Generator[[]int] {
	return rapid.SliceOfN(genRawID(n), 0, maxLen)
}

func genMaskCase(n int) *rapid.Generator[*maskCase] {
	return rapid.Custom(func(t *rapid.T) *maskCase {
		c := &maskCase{Kind: "mask"}
		c.A = genIDSet(n, 10).Draw(t, "A")
		c.B = genIDSet(n, 10).Draw(t, "B")
		if rapid.IntRange(0, 9).Draw(t, "dense") == 0 {
			// a dense operand: every ID except a few
			skip := map[int]bool{}
			for _, s := range genIDSet(n, 4).Draw(t, "holes") {
				skip[s] = true
			}
			c.B = c.B[:0]
			for i := 0; i < n; i++ {
				if !skip[i] {
					c.B = append(c.B, i)
				}
			}
		}
		nops := rapid.IntRange(1, 12).Draw(t, "nops")
		for i := 0; i < nops; i++ {
			k := rapid.SampledFrom([]string{"set", "set", "set", "set", "reset", "and", "or", "or", "xor", "xor", "not", "all"}).Draw(t, "k")
			op := maskOp{K: k}
			if k == "set" {
				op.ID = genRawID(n).Draw(t, "id")
				op.V = rapid.IntRange(0, 3).Draw(t, "v") != 0
			}
			c.Ops = append(c.Ops, op)
		}
		return c
	})
}

func genFilterExpr(t *rapid.T, n int, depth int) *core.F {
	leaf := depth <= 1 || rapid.IntRange(0, 3).Draw(t, "leaf") == 0
	if leaf {
		k := rapid.SampledFrom([]string{"mask", "mask", "without", "without", "excl", "any", "noneof", "anynot"}).Draw(t, "leafkind")
		f := &core.F{T: k, Ids: genIDSet(n, 4).Draw(t, "ids")}
		if k == "without" {
			f.Ex = genIDSet(n, 3).Draw(t, "ex")
		}
		if k == "mask" {
			f.ByVal = rapid.Bool().Draw(t, "byval")
		}
		return f
	}
	k := rapid.SampledFrom([]string{"and", "or", "xor", "not", "rel"}).Draw(t, "node")
	f := &core.F{T: k, Target: -1}
	f.L = genFilterExpr(t, n, depth-1)
	if k == "and" || k == "or" || k == "xor" {
		f.R = genFilterExpr(t, n, depth-1)
	}
	return f
}

func genFilterCase(n int) *rapid.Generator[*filterCase] {
	return rapid.Custom(func(t *rapid.T) *filterCase {
		c := &filterCase{Kind: "filter"}
		c.F = genFilterExpr(t, n, rapid.IntRange(1, 4).Draw(t, "depth"))
		mentioned := c.F.Mentioned(nil)
		nsets := rapid.IntRange(1, 8).Draw(t, "nsets")
		for i := 0; i < nsets; i++ {
			var set []int
			switch rapid.IntRange(0, 3).Draw(t, "base") {
			case 0: // empty base
			case 1: // everything mentioned
				set = append(set, mentioned...)
			default: // random part of what is mentioned
				for _, m := range mentioned {
					if rapid.Bool().Draw(t, "in") {
						set = append(set, m)
					}
				}
			}
			set = append(set, genIDSet(n, 2).Draw(t, "extra")...)
			sort.Ints(set)
			c.Sets = append(c.Sets, set)
		}
		return c
	})
}

// enumC04 walks the finite sub-spaces completely.
func enumC04(t *testing.T, st *core.Stats) {
	ids := core.RawIDs()
	n := len(ids)
	fail := func(what, msg string) {
		core.WriteFail(&c04Replay{Property: "C04", Build: core.BuildName(), Message: msg, Enum: what})
		t.Fatalf("C04 enumeration %s: %s", what, msg)
	}
	evals := 0
	// (1) all ordered ID pairs: Set/Get interplay, in both polarities
	for i := 0; i < n; i++ {
		for j := 0; j < n; j++ {
			m := ecs.All(ids[i])
			m.Set(ids[j], true)
			full := m.Not()
			for k := 0; k < n; k++ {
				want := k == i || k == j
				if m.Get(ids[k]) != want {
					fail("pairs", fmt.Sprintf("All(%d).Set(%d,true): Get(%d)=%v", i, j, k, !want))
				}
				if full.Get(ids[k]) == want {
					fail("pairs", fmt.Sprintf("All(%d).Set(%d,true).Not(): Get(%d)=%v", i, j, k, want))
				}
			}
			m.Set(ids[j], false)
			for k := 0; k < n; k++ {
				want := k == i && i != j
				if m.Get(ids[k]) != want {
					fail("pairs", fmt.Sprintf("All(%d).Set(%d,true).Set(%d,false): Get(%d)=%v", i, j, j, k, !want))
				}
			}
			evals++
			if i/64 != j/64 {
				st.AddDistinct(uint64(1)<<40 | uint64(i)<<16 | uint64(j))
			}
		}
	}
	// (2) every single-ID mask against structured operands, all binary operations and predicates
	patterns := map[string]func(k int) bool{
		"empty":   func(k int) bool { return false },
		"full":    func(k int) bool { return true },
		"even":    func(k int) bool { return k%2 == 0 },
		"mod3":    func(k int) bool { return k%3 == 0 },
		"word0":   func(k int) bool { return k/64 == 0 },
		"wordEnd": func(k int) bool { return k%64 == 63 || k%64 == 0 },
		"upper":   func(k int) bool { return k >= n/2 },
	}
	names := make([]string, 0, len(patterns))
	for nm := range patterns {
		names = append(names, nm)
	}
	sort.Strings(names)
	for _, nm := range names {
		p := patterns[nm]
		mod := make([]bool, n)
		var pm ecs.Mask
		for k := 0; k < n; k++ {
			if p(k) {
				mod[k] = true
				pm.Set(ids[k], true)
			}
		}
		for i := 0; i < n; i++ {
			c := &maskCase{Kind: "mask", A: []int{i}}
			for k := 0; k < n; k++ {
				if mod[k] {
					c.B = append(c.B, k)
				}
			}
			c.Ops = []maskOp{{K: "all"}, {K: "and"}, {K: "all"}, {K: "or"}, {K: "all"}, {K: "xor"}, {K: "not"}, {K: "and"}}
			if msg := checkMaskCase(c); msg != "" {
				fail("single-vs-"+nm, fmt.Sprintf("id %d: %s", i, msg))
			}
			evals++
			st.AddDistinct(uint64(2)<<40 | uint64(len(nm))<<24 | uint64(nm[0])<<16 | uint64(i))
		}
	}
	// (3) every single-ID filter of every leaf kind on: empty set, {i}, {i,j} for a j in another word, full set
	for i := 0; i < n; i++ {
		j := (i + 67) % n
		for _, kind := range []string{"mask", "without", "excl", "any", "noneof", "anynot"} {
			f := &core.F{T: kind, Ids: []int{i}}
			if kind == "without" {
				f.Ex = []int{j}
			}
			fullSet := make([]int, n)
			for k := range fullSet {
				fullSet[k] = k
			}
			c := &filterCase{Kind: "filter", F: f, Sets: [][]int{{}, {i}, {j}, {i, j}, fullSet}}
			if msg := checkFilterCase(c); msg != "" {
				fail("single-id-filters", msg)
			}
			evals++
			st.AddDistinct(uint64(3)<<40 | uint64(len(kind))<<24 | uint64(kind[1])<<16 | uint64(i))
		}
	}
	st.Count("enumerated", evals)
	st.Count("enum_pairs", n*n)
	st.Note("enumerated completely: all %d ordered ID pairs (Set/Get/Not), every single-ID mask x %d structured operands x {And,Or,Xor,Not,Contains,ContainsAny,IsZero,TotalBitsSet}, every single-ID leaf filter of 6 kinds x 5 sets", n*n, len(patterns))
}

func TestC04(t *testing.T) {
	withStats(t, "C04", func(st *core.Stats) {
		st.Rule = "mask cases: two generated ID sets (edge-biased over all IDs, 10% dense operands) and a generated script of Set/Reset/And/Or/Xor/Not/All, every bit and every predicate compared with a []bool set model after each op; non-trivial = operands span >= 2 mask words (tiny build: >= 2 IDs). filter cases: generated expression (depth <= 4, all leaf and logic kinds incl. RelationFilter wrapper) evaluated on generated component sets against the boolean definition; non-trivial = nesting depth >= 2. Enumerated parts are counted in counters.enumerated; distinct = distinct case hashes across shards"
		if path, ok := replaying(); ok {
			var r c04Replay
			if err := core.ReadReplay(path, &r); err != nil {
				t.Fatalf("cannot read replay: %v", err)
			}
			msg := ""
			switch {
			case r.Mask != nil:
				msg = checkMaskCase(r.Mask)
			case r.Filter != nil:
				msg = checkFilterCase(r.Filter)
			default:
				enumC04(t, st)
			}
			if msg != "" {
				t.Fatalf("C04 replay: %s", msg)
			}
			return
		}
		n := ecs.MaskTotalBits
		if core.EnvInt("VERIF_SHARD", 0) == 0 {
			t.Run("enum", func(t *testing.T) { enumC04(t, st) })
		}
		t.Run("maskops", func(t *testing.T) {
			rapid.Check(t, func(rt *rapid.T) {
				c := genMaskCase(n).Draw(rt, "case")
				cs := st.Begin()
				defer cs.End()
				all := append(append([]int{}, c.A...), c.B...)
				for _, op := range c.Ops {
					if op.K == "set" {
						all = append(all, op.ID)
					}
					cs.Feed(op.K)
					cs.FeedInt(uint64(op.ID))
				}
				for _, x := range all {
					cs.FeedInt(uint64(x) + 1000)
				}
				if n <= 64 {
					if len(all) >= 2 {
						cs.NonTrivial()
					}
				} else if words(all) >= 2 {
					cs.NonTrivial()
				}
				cs.Label(fmt.Sprintf("mask words=%d", words(all)))
				if len(c.B) <= 12 {
					cs.Sample(func() any { return c })
				}
				if msg := checkMaskCase(c); msg != "" {
					core.WriteFail(&c04Replay{Property: "C04", Build: core.BuildName(), Message: msg, Mask: c})
					rt.Fatalf("C04: %s", msg)
				}
			})
		})
		t.Run("filters", func(t *testing.T) {
			rapid.Check(t, func(rt *rapid.T) {
				c := genFilterCase(n).Draw(rt, "case")
				cs := st.Begin()
				defer cs.End()
				cs.Feed(c.F.String())
				for _, s := range c.Sets {
					cs.Feed(fmt.Sprint(s))
				}
				d := c.F.Depth()
				if d >= 2 {
					cs.NonTrivial()
				}
				cs.Label(fmt.Sprintf("filter depth=%d", d))
				cs.Sample(func() any { return map[string]any{"filter": c.F.String(), "sets": c.Sets} })
				if msg := checkFilterCase(c); msg != "" {
					core.WriteFail(&c04Replay{Property: "C04", Build: core.BuildName(), Message: msg, Filter: c})
					rt.Fatalf("C04: %s", msg)
				}
			})
		})
	})
}

// checkMaskCase / checkFilterCase: a panic of a mask or filter operation on legal arguments is a
// failure of the case, not of the harness.
func checkMaskCase(c *maskCase) (msg string) {
	if p := core.Call(func() { msg = checkMaskCaseRaw(c) }); p != nil {
		return fmt.Sprintf("a mask operation panicked: %v", p)
	}
	return msg
}

func checkFilterCase(c *filterCase) (msg string) {
	if p := core.Call(func() { msg = checkFilterCaseRaw(c) }); p != nil {
		return fmt.Sprintf("a filter operation panicked: %v", p)
	}
	return msg
}
