package props

// C05, generic part: relation targets assigned and selected through package generic.

import (
	"strings"
	"testing"
)

// TestC05Generic drives the generic-vs-core lock-step worlds of C18 (adapters with a relation type
// only) and owns what C05 speaks about: the target an entity reports after it was assigned through
// a generic call (MapN.New/NewWith/NewBatch(Q)/Add/Remove with target, Map.SetRelation(Batch),
// Exchange with target), and the selection of FilterN.WithRelation filters with a fixed or a
// call-time target. Every other mismatch is C18's business and only ends the case.
func TestC05Generic(t *testing.T) {
	runGenericProp(t, &genericProp{ID: "C05", Test: "TestC05Generic", RelOnly: true,
		Owns: func(msg string) bool {
			return strings.Contains(msg, "relation target differs") ||
				strings.Contains(msg, "Relation() =") ||
				strings.Contains(msg, "[relation filter with a target]")
		},
		NonTri: func(g *gWorld) bool { return g.relQueries >= 2 },
		Rule:   "generic part: histories of generic calls on adapters that declare a relation type (all arities), lock-step with the ID-based calls on a second world; owned oracles: Relations.Get of every entity equal in both worlds after every op, QueryN.Relation() equal to Relations.Get at every position, and every FilterN.WithRelation query with a fixed target (also re-targeted between queries) or a call-time target selects exactly what ecs.RelationFilter over the equivalent mask filter selects; non-trivial (generic part) = at least two relation-filter queries with a target in the history",
	})
}
