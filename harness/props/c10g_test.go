package props

// C10, generic part: illegal calls through package generic panic and change nothing.

import (
	"strings"
	"testing"
)

// TestC10Generic runs the generic-vs-core lock-step histories of C18 with a high share of illegal
// calls and owns exactly those: a generic call whose documented ID-based equivalent is illegal (and
// panics) must panic too, leave the world unlocked and equal to the lock-step world.
func TestC10Generic(t *testing.T) {
	runGenericProp(t, &genericProp{ID: "C10", Test: "TestC10Generic", IllWeight: 6,
		Owns:   func(msg string) bool { return strings.Contains(msg, illMarker) && !strings.Contains(msg, "HARNESS") },
		NonTri: func(g *gWorld) bool { return g.illegal >= 3 },
		Rule:   "generic part: histories of generic calls (all arities) in lock-step with their ID-based equivalents, with 16 classes of illegal calls injected (MapN.Get/Add/Remove/Assign on a removed entity, Add of present / Remove of absent components, New/Add with a removed target, NewBatch/NewBatchQ with a count <= 0, Map.Set on a missing component, Map.GetRelation on a non-relation component or a removed entity, Map.SetRelation to a removed target or on a missing component, Map.Get of a removed entity): the generic call must panic like its equivalent, leave the world unlocked, and both worlds must still be equal; non-trivial (generic part) = at least 3 refused illegal calls in the history",
	})
}
