package props

// A fixed-shape probe beyond the sizes the generated histories reach: more than 65 536 entities in one
// world and in one table (16-bit boundaries of ids and row indices). Enumerated, not generated: it
// runs once per check run (shard 0) for C01 (values) and C02 (handles).

import (
	"fmt"

	"github.com/mlange-42/arche/ecs"
)

type bigA struct{ V uint64 }
type bigB struct{ V [3]uint32 }

// bigWorldProbe returns "" or what went wrong. values: also judge component values (C01).
func bigWorldProbe(n int, values bool) (msg string) {
	defer func() {
		if p := recover(); p != nil {
			msg = fmt.Sprintf("big world (%d entities): panic: %v", n, p)
		}
	}()
	w := ecs.NewWorld()
	idA, idB := ecs.ComponentID[bigA](&w), ecs.ComponentID[bigB](&w)
	handles := make([]ecs.Entity, 0, n)
	seen := map[uint32]bool{}
	q := ecs.NewBuilder(&w, idA).NewBatchQ(n)
	if q.Count() != n {
		return fmt.Sprintf("NewBatchQ(%d): Count() = %d", n, q.Count())
	}
	for q.Next() {
		e := q.Entity()
		if e.IsZero() || seen[uint32(e.ID())] {
			return fmt.Sprintf("NewBatchQ(%d) issued %v twice or the zero entity", n, e)
		}
		seen[uint32(e.ID())] = true
		(*bigA)(q.Get(idA)).V = uint64(e.ID())*3 + 1
		handles = append(handles, e)
	}
	if len(handles) != n || w.Stats().Entities.Used != n {
		return fmt.Sprintf("NewBatchQ(%d) yielded %d entities, Stats says %d used", n, len(handles), w.Stats().Entities.Used)
	}
	check := func(when string) string {
		alive := 0
		for _, e := range handles {
			if !w.Alive(e) {
				continue
			}
			alive++
			if values {
				p := (*bigA)(w.Get(e, idA))
				if p == nil || p.V != uint64(e.ID())*3+1 {
					return fmt.Sprintf("%s: entity %v: component value lost (%v)", when, e, p)
				}
				if w.Has(e, idB) {
					pb := (*bigB)(w.Get(e, idB))
					if pb == nil || pb.V != [3]uint32{uint32(e.ID()), 7, uint32(e.ID()) ^ 0xffff} {
						return fmt.Sprintf("%s: entity %v: second component value lost (%v)", when, e, pb)
					}
				}
			}
		}
		cnt := 0
		qq := w.Query(ecs.All(idA))
		visited := map[ecs.Entity]bool{}
		for qq.Next() {
			e := qq.Entity()
			if visited[e] || !w.Alive(e) {
				return fmt.Sprintf("%s: query visits %v twice or a dead entity", when, e)
			}
			visited[e] = true
			if values && (*bigA)(qq.Get(idA)).V != uint64(e.ID())*3+1 {
				return fmt.Sprintf("%s: query position of %v holds another entity's value", when, e)
			}
			cnt++
		}
		if cnt != alive || w.Stats().Entities.Used != alive {
			return fmt.Sprintf("%s: %d handles alive, query visits %d, Stats says %d used", when, alive, cnt, w.Stats().Entities.Used)
		}
		return ""
	}
	if m := check("after creation"); m != "" {
		return m
	}
	// move the entities around the 16-bit boundary to another table, with values
	lo, hi := 65530, 65545
	if hi > n {
		hi = n
	}
	for i := lo; i < hi; i++ {
		e := handles[i]
		w.Assign(e, ecs.Component{ID: idB, Comp: &bigB{V: [3]uint32{uint32(e.ID()), 7, uint32(e.ID()) ^ 0xffff}}})
	}
	if m := check("after moving the entities around id 65536 to another table"); m != "" {
		return m
	}
	// swap-removes in the big table, across the boundary
	removed := []ecs.Entity{}
	for i := 64990; i < n && i < 66010; i += 3 {
		if w.Alive(handles[i]) {
			w.RemoveEntity(handles[i])
			removed = append(removed, handles[i])
		}
	}
	for i := 5; i < 400; i += 7 {
		w.RemoveEntity(handles[i])
		removed = append(removed, handles[i])
	}
	if m := check("after removals"); m != "" {
		return m
	}
	for _, e := range removed {
		if w.Alive(e) {
			return fmt.Sprintf("removed entity %v is reported alive", e)
		}
	}
	// recycling plus fresh ids in one batch
	k := len(removed) + 300
	q = ecs.NewBuilder(&w, idA).NewBatchQ(k)
	for q.Next() {
		e := q.Entity()
		if !w.Alive(e) {
			return fmt.Sprintf("entity %v from NewBatchQ is not alive", e)
		}
		(*bigA)(q.Get(idA)).V = uint64(e.ID())*3 + 1
		handles = append(handles, e)
	}
	dup := map[ecs.Entity]bool{}
	ids := map[uint32]bool{}
	for _, e := range handles {
		if dup[e] {
			return fmt.Sprintf("handle %v was issued twice", e)
		}
		dup[e] = true
		if w.Alive(e) {
			if ids[uint32(e.ID())] {
				return fmt.Sprintf("two alive entities share id %d", e.ID())
			}
			ids[uint32(e.ID())] = true
		}
	}
	for _, e := range removed {
		if w.Alive(e) {
			return fmt.Sprintf("removed entity %v is alive again after its id was recycled", e)
		}
	}
	if m := check("after recycling"); m != "" {
		return m
	}
	// bulk removal and Reset
	if got, want := w.Batch().RemoveEntities(ecs.All(idB)), hi-lo; hi > lo && got > want {
		return fmt.Sprintf("RemoveEntities removed %d entities, at most %d have the component", got, want)
	}
	if m := check("after bulk removal"); m != "" {
		return m
	}
	w.Reset()
	if w.Stats().Entities.Used != 0 {
		return "entities left after Reset"
	}
	e := w.NewEntity(idA)
	if p := (*bigA)(w.Get(e, idA)); values && (p == nil || p.V != 0) {
		return fmt.Sprintf("after Reset of the big world a new component reads %v, want zero", p)
	}
	return ""
}

// cacheChurnProbe: more filter registrations in one world's lifetime than fit 16 bits, with one
// early registration kept alive throughout (enumerated part of C07).
func cacheChurnProbe(rounds int) (msg string) {
	defer func() {
		if p := recover(); p != nil {
			msg = fmt.Sprintf("filter churn (%d registrations): panic: %v", rounds, p)
		}
	}()
	w := ecs.NewWorld()
	idA, idB := ecs.ComponentID[bigA](&w), ecs.ComponentID[bigB](&w)
	as, bs := map[ecs.Entity]bool{}, map[ecs.Entity]bool{}
	for i := 0; i < 3; i++ {
		as[w.NewEntity(idA)] = true
	}
	for i := 0; i < 2; i++ {
		bs[w.NewEntity(idB)] = true
	}
	sel := func(f ecs.Filter) map[ecs.Entity]bool {
		out := map[ecs.Entity]bool{}
		q := w.Query(f)
		for q.Next() {
			out[q.Entity()] = true
		}
		return out
	}
	same := func(a, b map[ecs.Entity]bool) bool {
		if len(a) != len(b) {
			return false
		}
		for k := range a {
			if !b[k] {
				return false
			}
		}
		return true
	}
	fA, fB := ecs.All(idA), ecs.All(idB)
	long := w.Cache().Register(&fA)
	for i := 0; i < rounds; i++ {
		c := w.Cache().Register(&fB)
		if i%4096 == 0 || i >= rounds-3 || (i >= 65530 && i <= 65540) {
			if got := sel(&long); !same(got, as) {
				return fmt.Sprintf("after %d further registrations the long-lived registered filter selects %v, its original selects %v", i+1, got, as)
			}
			if got := sel(&c); !same(got, bs) {
				return fmt.Sprintf("registration number %d selects %v, its original selects %v", i+2, got, bs)
			}
		}
		if orig := w.Cache().Unregister(&c); orig != ecs.Filter(&fB) {
			return fmt.Sprintf("Unregister of registration number %d returned another filter", i+2)
		}
	}
	if got := sel(&long); !same(got, as) {
		return fmt.Sprintf("after %d registrations the long-lived registered filter selects %v, its original selects %v", rounds, got, as)
	}
	if orig := w.Cache().Unregister(&long); orig != ecs.Filter(&fA) {
		return "Unregister of the long-lived filter returned another filter"
	}
	return ""
}
