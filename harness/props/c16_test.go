package props

// C16 — type registry: stable bijection, and all component IDs are usable.

import (
	"bytes"
	"fmt"
	"reflect"
	"testing"
	"unsafe"

	"verifharness/core"

	"github.com/mlange-42/arche/ecs"
	"github.com/mlange-42/arche/generic"
	"pgregory.net/rapid"
)

type regOp struct {
	K     string `json:"k"`     // reg | rereg | new | add | rem | write | rment | lockreg | fill | regres | fillres
	Shape int    `json:"shape"` // reg: 0 plain array, 1 relation first, 2 relation later, 3 plain struct, 4 zero-sized, 5 non-struct scalar-like
	E     int    `json:"e"`     // entity slot
	T     []int  `json:"t"`     // type indices (registration order = id)
	Tok   uint32 `json:"tok"`
}

type regReplay struct {
	Property string  `json:"property"`
	Build    string  `json:"build"`
	Message  string  `json:"message"`
	Cap      int     `json:"cap"`
	Ops      []regOp `json:"ops"`
}

var (
	relT  = reflect.TypeOf(ecs.Relation{})
	byteT = reflect.TypeOf(byte(0))
)

// shapeType builds the n-th distinct type of a shape.
func shapeType(shape, n int) (reflect.Type, bool) {
	arr := reflect.ArrayOf(n+1, byteT)
	relF := reflect.StructField{Name: "Relation", Type: relT, Anonymous: true}
	switch shape {
	case 1:
		return reflect.StructOf([]reflect.StructField{relF, {Name: "V", Type: arr}}), true
	case 2:
		return reflect.StructOf([]reflect.StructField{{Name: "V", Type: arr}, relF}), false
	case 3:
		return reflect.StructOf([]reflect.StructField{{Name: "A", Type: reflect.TypeOf(uint16(0))}, {Name: "V", Type: arr}}), false
	case 4:
		return reflect.ArrayOf(0, reflect.ArrayOf(n+1, byteT)), false
	case 5:
		return reflect.ArrayOf(n+1, reflect.TypeOf(uint32(0))), false
	}
	return reflect.ArrayOf(60000+n, byteT), false // big plain array; never more than a few instances
}

type regEnt struct {
	h       ecs.Entity
	parent  ecs.Entity     // relation target created together with the entity (relnew)
	vals    map[int][]byte // type index -> bytes
	bornAt  int            // number of registered types when the entity's first table was created
	crossed bool
}

type regWorld struct {
	w                  *ecs.World
	types              []reflect.Type
	isRel              []bool
	ids                []ecs.ID
	ents               []*regEnt
	nRes               int
	resTypes           []reflect.Type
	resIDs             []ecs.ResID
	opaque             []bool // per type: values are never written (static pointer-holding types)
	nStatic            int
	serial             int
	fanned, relTargets bool
	labels             map[string]bool
	nontri             bool
}

func (r *regWorld) valueMask(tp reflect.Type) []byte {
	// all generated shapes: padding only after the uint16 of shape 3 (none: arr of bytes follows) and
	// before/after the embedded zero-sized Relation; compare only the bytes of array fields
	m := make([]byte, tp.Size())
	var mark func(tp reflect.Type, off uintptr)
	mark = func(tp reflect.Type, off uintptr) {
		switch tp.Kind() {
		case reflect.Struct:
			for i := 0; i < tp.NumField(); i++ {
				mark(tp.Field(i).Type, off+tp.Field(i).Offset)
			}
		case reflect.Array:
			for i := 0; i < tp.Len(); i++ {
				mark(tp.Elem(), off+uintptr(i)*tp.Elem().Size())
			}
		default:
			for i := uintptr(0); i < tp.Size(); i++ {
				m[off+i] = 0xff
			}
		}
	}
	mark(tp, 0)
	return m
}

func (r *regWorld) masked(tp reflect.Type, b []byte) []byte {
	m := r.valueMask(tp)
	out := make([]byte, len(b))
	for i := range b {
		out[i] = b[i] & m[i]
	}
	return out
}

func (r *regWorld) checkRegistry() string {
	ids := ecs.ComponentIDs(r.w)
	if len(ids) != len(r.types) {
		return fmt.Sprintf("ComponentIDs has %d entries, %d types were registered", len(ids), len(r.types))
	}
	raw := core.RawIDs()
	for i, id := range ids {
		if id != raw[i] || id != r.ids[i] {
			return fmt.Sprintf("ComponentIDs[%d] = %v, ids must be dense in registration order", i, id)
		}
		info, ok := ecs.ComponentInfo(r.w, id)
		if !ok || info.Type != r.types[i] || info.ID != id {
			return fmt.Sprintf("ComponentInfo(%d) = %+v,%v, registered type is %v", i, info, ok, r.types[i])
		}
		if info.IsRelation != r.isRel[i] {
			return fmt.Sprintf("ComponentInfo(%d).IsRelation=%v for type %v (relation embedded first: %v)", i, info.IsRelation, r.types[i], r.isRel[i])
		}
	}
	if len(ids) < ecs.MaskTotalBits {
		if _, ok := ecs.ComponentInfo(r.w, raw[len(ids)]); ok {
			return fmt.Sprintf("ComponentInfo reports id %d which was never registered", len(ids))
		}
	}
	return ""
}

// checkResRegistry: the resource registry is dense, stable and consistent, and a known type keeps
// its ID however often it is looked up.
func (r *regWorld) checkResRegistry(k int) string {
	ids := ecs.ResourceIDs(r.w)
	if len(ids) != len(r.resIDs) {
		return fmt.Sprintf("ResourceIDs has %d entries, %d resource types were registered", len(ids), len(r.resIDs))
	}
	for i, id := range ids {
		if id != r.resIDs[i] {
			return fmt.Sprintf("ResourceIDs[%d] = %v, the type registered at that position got %v", i, id, r.resIDs[i])
		}
		if got, ok := ecs.ResourceType(r.w, id); !ok || got != r.resTypes[i] {
			return fmt.Sprintf("ResourceType(%v) = %v,%v, registered type is %v", id, got, ok, r.resTypes[i])
		}
	}
	// look a few known types up again (first, last, one that varies with the step)
	n := len(r.resIDs)
	for _, i := range []int{0, n - 1, k % max(n, 1)} {
		if i < 0 || i >= n {
			continue
		}
		var again ecs.ResID
		if p := core.Call(func() { again = ecs.ResourceTypeID(r.w, r.resTypes[i]) }); p != nil {
			return fmt.Sprintf("looking up the known resource type number %d panicked: %v", i+1, p)
		}
		if again != r.resIDs[i] {
			return fmt.Sprintf("resource type number %d now gets id %v, it was registered with %v", i+1, again, r.resIDs[i])
		}
	}
	nc := len(r.types)
	for _, i := range []int{0, nc - 1, k % max(nc, 1)} {
		if i < 0 || i >= nc || r.w.IsLocked() {
			continue
		}
		if again := ecs.TypeID(r.w, r.types[i]); again != r.ids[i] {
			return fmt.Sprintf("component type number %d now gets id %v, it was registered with %v", i+1, again, r.ids[i])
		}
	}
	return ""
}

// checkEntities reads every tracked entity through every registered id.
func (r *regWorld) checkEntities() string {
	for ei, e := range r.ents {
		if e == nil {
			continue
		}
		if !r.w.Alive(e.h) {
			return fmt.Sprintf("entity slot %d is no longer alive", ei)
		}
		mask := r.w.Mask(e.h)
		if n := mask.TotalBitsSet(); n != len(e.vals) {
			return fmt.Sprintf("entity slot %d reports %d components, has %d", ei, n, len(e.vals))
		}
		for t := range r.types {
			p := r.w.Get(e.h, r.ids[t])
			want, has := e.vals[t]
			if r.w.Has(e.h, r.ids[t]) != has || (p != nil) != has || mask.Get(r.ids[t]) != has {
				return fmt.Sprintf("entity slot %d: component id %d present=%v, model says %v", ei, t, p != nil, has)
			}
			if !has {
				continue
			}
			tp := r.types[t]
			if tp.Size() > 0 {
				got := r.masked(tp, unsafe.Slice((*byte)(p), tp.Size()))
				if !bytes.Equal(got, want) {
					return fmt.Sprintf("entity slot %d: component id %d reads %x, last written %x", ei, t, got, want)
				}
			}
			// queried by that id: the entity must be found
			found := false
			q := r.w.Query(ecs.All(r.ids[t]))
			for q.Next() {
				if q.Entity() == e.h {
					found = true
					if q.Get(r.ids[t]) != p {
						q.Close()
						return fmt.Sprintf("entity slot %d: Query.Get(id %d) differs from World.Get", ei, t)
					}
				}
			}
			if !found {
				return fmt.Sprintf("entity slot %d is not found by Query(All(id %d)) although it has the component", ei, t)
			}
			if r.isRel[t] && !r.relTargets {
				if tg := r.w.Relations().Get(e.h, r.ids[t]); !tg.IsZero() {
					return fmt.Sprintf("entity slot %d: relation id %d has target %v, none was assigned", ei, t, tg)
				}
			}
		}
	}
	return ""
}

func (r *regWorld) hasRel(e *regEnt) bool {
	for t := range e.vals {
		if r.isRel[t] {
			return true
		}
	}
	return false
}

func (r *regWorld) value(t int, tok uint32) (any, []byte) {
	tp := r.types[t]
	if t < len(r.opaque) && r.opaque[t] {
		tok = 0 // pointer-holding static types only ever hold their zero value here
	}
	b := core.Expand(tok, int(tp.Size()))
	v := reflect.New(tp)
	if tp.Size() > 0 {
		copy(unsafe.Slice((*byte)(v.UnsafePointer()), tp.Size()), b)
	}
	return v.Interface(), r.masked(tp, b)
}

func (r *regWorld) label(l string) { r.labels[l] = true }

func (r *regWorld) register(shape int) string {
	n := len(r.types)
	tp, rel := shapeType(shape, r.serial)
	r.serial++
	var id ecs.ID
	p := core.Call(func() { id = ecs.TypeID(r.w, tp) })
	if n >= ecs.MaskTotalBits {
		if p == nil {
			return fmt.Sprintf("registering component type number %d (limit %d) did not panic", n+1, ecs.MaskTotalBits)
		}
		r.label("registration beyond the limit")
		return ""
	}
	if p != nil {
		return fmt.Sprintf("registering component type number %d panicked: %v", n+1, p)
	}
	if id != core.RawIDs()[n] {
		return fmt.Sprintf("type number %d got id %v, want %d", n+1, id, n)
	}
	r.types = append(r.types, tp)
	r.isRel = append(r.isRel, rel)
	r.ids = append(r.ids, id)
	r.opaque = append(r.opaque, false)
	return ""
}

// static types registered through the generic function ecs.ComponentID[T] (the reflect-built shapes go
// through ecs.TypeID): interfaces, pointers, funcs, maps, slices, strings, channels, scalars, and
// structs with ecs.Relation embedded first / later.
type regStaticRel struct {
	ecs.Relation
	V uint32
}
type regStaticLate struct {
	V uint32
	ecs.Relation
}

var staticRegs = []struct {
	tp  reflect.Type
	rel bool
	reg func(w *ecs.World) ecs.ID
}{
	{reflect.TypeOf((*any)(nil)).Elem(), false, func(w *ecs.World) ecs.ID { return ecs.ComponentID[any](w) }},
	{reflect.TypeOf((*error)(nil)).Elem(), false, func(w *ecs.World) ecs.ID { return ecs.ComponentID[error](w) }},
	{reflect.TypeOf((*fmt.Stringer)(nil)).Elem(), false, func(w *ecs.World) ecs.ID { return ecs.ComponentID[fmt.Stringer](w) }},
	{reflect.TypeOf((**int)(nil)).Elem(), false, func(w *ecs.World) ecs.ID { return ecs.ComponentID[*int](w) }},
	{reflect.TypeOf((*func())(nil)).Elem(), false, func(w *ecs.World) ecs.ID { return ecs.ComponentID[func()](w) }},
	{reflect.TypeOf((*map[string]int)(nil)).Elem(), false, func(w *ecs.World) ecs.ID { return ecs.ComponentID[map[string]int](w) }},
	{reflect.TypeOf((*[]byte)(nil)).Elem(), false, func(w *ecs.World) ecs.ID { return ecs.ComponentID[[]byte](w) }},
	{reflect.TypeOf((*string)(nil)).Elem(), false, func(w *ecs.World) ecs.ID { return ecs.ComponentID[string](w) }},
	{reflect.TypeOf((*chan int)(nil)).Elem(), false, func(w *ecs.World) ecs.ID { return ecs.ComponentID[chan int](w) }},
	{reflect.TypeOf((*regStaticRel)(nil)).Elem(), true, func(w *ecs.World) ecs.ID { return ecs.ComponentID[regStaticRel](w) }},
	{reflect.TypeOf((*regStaticLate)(nil)).Elem(), false, func(w *ecs.World) ecs.ID { return ecs.ComponentID[regStaticLate](w) }},
	{reflect.TypeOf((*uint64)(nil)).Elem(), false, func(w *ecs.World) ecs.ID { return ecs.ComponentID[uint64](w) }},
	{reflect.TypeOf((*[0]byte)(nil)).Elem(), false, func(w *ecs.World) ecs.ID { return ecs.ComponentID[[0]byte](w) }},
	{reflect.TypeOf((*ecs.Relation)(nil)).Elem(), false, func(w *ecs.World) ecs.ID { return ecs.ComponentID[ecs.Relation](w) }},
	// T next to *T, []T, *[]T: every distinct Go type is its own component type, and only the struct that
	// embeds the marker first is a relation
	{reflect.TypeOf((*int)(nil)).Elem(), false, func(w *ecs.World) ecs.ID { return ecs.ComponentID[int](w) }},
	{reflect.TypeOf((**regStaticRel)(nil)).Elem(), false, func(w *ecs.World) ecs.ID { return ecs.ComponentID[*regStaticRel](w) }},
	{reflect.TypeOf((*[]regStaticRel)(nil)).Elem(), false, func(w *ecs.World) ecs.ID { return ecs.ComponentID[[]regStaticRel](w) }},
	{reflect.TypeOf((*[1]regStaticRel)(nil)).Elem(), false, func(w *ecs.World) ecs.ID { return ecs.ComponentID[[1]regStaticRel](w) }},
	{reflect.TypeOf((*regStaticPromoted)(nil)).Elem(), false, func(w *ecs.World) ecs.ID { return ecs.ComponentID[regStaticPromoted](w) }},
	{reflect.TypeOf((**[]byte)(nil)).Elem(), false, func(w *ecs.World) ecs.ID { return ecs.ComponentID[*[]byte](w) }},
}

// registerStatic registers the next unused static type through ecs.ComponentID[T].
func (r *regWorld) registerStatic() string {
	if r.nStatic >= len(staticRegs) {
		return ""
	}
	sr := staticRegs[r.nStatic]
	r.nStatic++
	n := len(r.types)
	var id ecs.ID
	p := core.Call(func() { id = sr.reg(r.w) })
	if n >= ecs.MaskTotalBits {
		if p == nil {
			return fmt.Sprintf("ComponentID[%v] as type number %d (limit %d) did not panic", sr.tp, n+1, ecs.MaskTotalBits)
		}
		return ""
	}
	if p != nil {
		return fmt.Sprintf("ComponentID[%v] (type number %d) panicked: %v", sr.tp, n+1, p)
	}
	if id != core.RawIDs()[n] {
		return fmt.Sprintf("ComponentID[%v] as type number %d got id %v, want %d", sr.tp, n+1, id, n)
	}
	if again := sr.reg(r.w); again != id {
		return fmt.Sprintf("ComponentID[%v] gives %v the second time, %v the first", sr.tp, again, id)
	}
	r.types = append(r.types, sr.tp)
	r.isRel = append(r.isRel, sr.rel)
	r.ids = append(r.ids, id)
	r.opaque = append(r.opaque, true)
	r.label("static type registered through ComponentID[T] (interface, pointer, func, map, ...)")
	// every API that asks "is this type a relation?" gives the registry's answer: a generic filter
	// takes a relation target exactly for relation types
	if wr, ok := staticWithRelation[sr.tp]; ok && !r.w.IsLocked() {
		p := core.Call(func() { wr(r.w) })
		if msg := relProbeVerdict(sr.tp, sr.rel, p, r.w.IsLocked()); msg != "" {
			return msg
		}
		r.label("relation-ness asked through a generic filter")
	}
	return ""
}

func relProbeVerdict(tp reflect.Type, rel bool, p any, locked bool) string {
	if locked {
		return fmt.Sprintf("generic filter WithRelation(%v) left the world locked (panic: %v)", tp, p)
	}
	if rel && p != nil {
		return fmt.Sprintf("generic filter WithRelation(%v) is refused although the type is a relation: %v", tp, p)
	}
	if !rel && p == nil {
		return fmt.Sprintf("generic filter WithRelation(%v) is accepted although the type does not count as a relation (ecs.Relation is not embedded as its first field)", tp)
	}
	return ""
}

type regStaticPromoted struct {
	regStaticRel
}

func withRel[T any](w *ecs.World) {
	q := generic.NewFilter1[T]().WithRelation(generic.T[T](), ecs.Entity{}).Query(w)
	q.Close()
}

var staticWithRelation = map[reflect.Type]func(w *ecs.World){
	reflect.TypeOf(regStaticRel{}):      withRel[regStaticRel],
	reflect.TypeOf(regStaticLate{}):     withRel[regStaticLate],
	reflect.TypeOf(regStaticPromoted{}): withRel[regStaticPromoted],
	reflect.TypeOf(uint64(0)):           withRel[uint64],
	reflect.TypeOf(ecs.Relation{}):      withRel[ecs.Relation],
	reflect.TypeOf([1]regStaticRel{}):   withRel[[1]regStaticRel],
}

func (r *regWorld) apply(op regOp) string {
	nt := len(r.types)
	pickT := func() []int {
		out := []int{}
		seen := map[int]bool{}
		for _, t := range op.T {
			if nt == 0 {
				break
			}
			// negative = counted from the newest type
			if t < 0 {
				t = nt + t
			}
			t = ((t % nt) + nt) % nt
			if !seen[t] {
				seen[t] = true
				out = append(out, t)
			}
		}
		return out
	}
	slot := func() *regEnt {
		if len(r.ents) == 0 {
			return nil
		}
		return r.ents[op.E%len(r.ents)]
	}
	switch op.K {
	case "reg":
		return r.register(op.Shape)
	case "regstatic":
		return r.registerStatic()
	case "rereg":
		if nt == 0 {
			return ""
		}
		t := pickT()
		if len(t) == 0 {
			return ""
		}
		if id := ecs.TypeID(r.w, r.types[t[0]]); id != r.ids[t[0]] {
			return fmt.Sprintf("re-registering type %d gives id %v, first gave %v", t[0], id, r.ids[t[0]])
		}
	case "new":
		ts := pickT()
		e := &regEnt{vals: map[int][]byte{}, bornAt: nt}
		ids := []ecs.ID{}
		rel := false
		for _, t := range ts {
			if r.isRel[t] {
				if rel {
					continue
				}
				rel = true
			}
			ids = append(ids, r.ids[t])
			e.vals[t] = make([]byte, r.types[t].Size())
		}
		if p := core.Call(func() { e.h = r.w.NewEntity(ids...) }); p != nil {
			return fmt.Sprintf("NewEntity with ids %v panicked: %v", ts, p)
		}
		if len(r.ents) < 8 {
			r.ents = append(r.ents, e)
		} else {
			old := r.ents[op.E%8]
			if old != nil {
				r.w.RemoveEntity(old.h)
			}
			r.ents[op.E%8] = e
		}
	case "add":
		e := slot()
		if e == nil {
			return ""
		}
		comps := []ecs.Component{}
		ids := []ecs.ID{}
		added := []int{}
		for _, t := range pickT() {
			if _, has := e.vals[t]; has {
				continue
			}
			if r.isRel[t] && r.hasRel(e) {
				continue
			}
			v, b := r.value(t, op.Tok)
			comps = append(comps, ecs.Component{ID: r.ids[t], Comp: v})
			ids = append(ids, r.ids[t])
			e.vals[t] = b
			added = append(added, t)
			if r.isRel[t] {
				break
			}
		}
		if len(comps) == 0 {
			return ""
		}
		var p any
		if op.Tok%2 == 0 {
			p = core.Call(func() { r.w.Assign(e.h, comps...) })
		} else {
			p = core.Call(func() { r.w.Add(e.h, ids...) })
			for _, t := range added {
				e.vals[t] = make([]byte, r.types[t].Size())
			}
		}
		if p != nil {
			return fmt.Sprintf("adding components %v to entity slot %d panicked: %v", added, op.E, p)
		}
		for _, t := range added {
			// the type was registered after the entity's table existed, in a later 16-id chunk
			if t >= e.bornAt && t/16 > (e.bornAt-1)/16 && e.bornAt > 0 {
				r.nontri = true
				r.label("component of a later layout chunk added to an older table's entity")
			}
			switch {
			case t >= 240:
				r.label("id>=240 used")
			case t >= 128:
				r.label("id>=128 used")
			case t >= 64:
				r.label("id>=64 used")
			}
		}
	case "rem":
		e := slot()
		if e == nil {
			return ""
		}
		ids := []ecs.ID{}
		for _, t := range pickT() {
			if _, has := e.vals[t]; has {
				ids = append(ids, r.ids[t])
				delete(e.vals, t)
			}
		}
		if len(ids) > 0 {
			if p := core.Call(func() { r.w.Remove(e.h, ids...) }); p != nil {
				return fmt.Sprintf("removing components from entity slot %d panicked: %v", op.E, p)
			}
		}
	case "write":
		e := slot()
		if e == nil {
			return ""
		}
		for _, t := range pickT() {
			if _, has := e.vals[t]; has {
				v, b := r.value(t, op.Tok)
				if p := core.Call(func() { r.w.Set(e.h, r.ids[t], v) }); p != nil {
					return fmt.Sprintf("Set of component id %d panicked: %v", t, p)
				}
				e.vals[t] = b
				break
			}
		}
	case "rment":
		if len(r.ents) == 0 {
			return ""
		}
		i := op.E % len(r.ents)
		if r.ents[i] != nil {
			r.w.RemoveEntity(r.ents[i].h)
			r.ents[i] = nil
		}
	case "relnew":
		// a parent and a child carrying only the newest relation type: the same relation node every
		// time, so that a table retired earlier is reused
		rt := -1
		for t := nt - 1; t >= 0; t-- {
			if r.isRel[t] {
				rt = t
				break
			}
		}
		if rt < 0 {
			return ""
		}
		e := &regEnt{vals: map[int][]byte{rt: make([]byte, r.types[rt].Size())}, bornAt: nt}
		if p := core.Call(func() {
			e.parent = r.w.NewEntity()
			e.h = ecs.NewBuilder(r.w, r.ids[rt]).WithRelation(r.ids[rt]).New(e.parent)
		}); p != nil {
			return fmt.Sprintf("creating a parent and a child with relation id %d panicked: %v", rt, p)
		}
		r.relTargets = true
		if len(r.ents) < 8 {
			r.ents = append(r.ents, e)
		} else {
			old := r.ents[op.E%8]
			if old != nil {
				r.w.RemoveEntity(old.h)
			}
			r.ents[op.E%8] = e
		}
	case "retire":
		// remove a child and then its parent: the child's table is retired for reuse
		for i, e := range r.ents {
			if e == nil || e.parent.IsZero() {
				continue
			}
			if p := core.Call(func() {
				r.w.RemoveEntity(e.h)
				r.w.RemoveEntity(e.parent)
			}); p != nil {
				return fmt.Sprintf("removing a child and its parent panicked: %v", p)
			}
			r.ents[i] = nil
			r.label("relation table retired (then types are registered, then it is reused)")
			break
		}
	case "fan":
		// more relation tables in one node than a storage page holds (32); the last children are tracked
		rt := -1
		for t := nt - 1; t >= 0; t-- {
			if r.isRel[t] {
				rt = t
				break
			}
		}
		if rt < 0 || r.fanned {
			return ""
		}
		r.fanned = true
		var last [2]*regEnt
		if p := core.Call(func() {
			for i := 0; i < 36; i++ {
				parent := r.w.NewEntity()
				h := ecs.NewBuilder(r.w, r.ids[rt]).WithRelation(r.ids[rt]).New(parent)
				last[i%2] = &regEnt{h: h, vals: map[int][]byte{rt: make([]byte, r.types[rt].Size())}, bornAt: nt}
			}
		}); p != nil {
			return fmt.Sprintf("creating 36 parents with one child each panicked: %v", p)
		}
		r.relTargets = true
		for _, e := range last {
			if len(r.ents) < 8 {
				r.ents = append(r.ents, e)
			} else {
				old := r.ents[op.E%8]
				if old != nil {
					r.w.RemoveEntity(old.h)
				}
				r.ents[op.E%8] = e
			}
		}
		r.label("fan: 36 relation tables in one node")
	case "lockreg":
		if nt >= ecs.MaskTotalBits {
			return ""
		}
		tp, _ := shapeType(op.Shape, r.serial)
		r.serial++
		q := r.w.Query(ecs.All())
		p := core.Call(func() { ecs.TypeID(r.w, tp) })
		q.Close()
		if p == nil {
			return "registering a new component type in a locked world did not panic"
		}
		if msg := r.checkRegistry(); msg != "" {
			return "after the rejected registration under lock: " + msg
		}
		// the rejected type is not registered: once unlocked, the next registration (of another
		// type, of a generated shape) gets the next id and its own relation flag
		shape2 := int(op.Tok % 6)
		tp, rel := shapeType(shape2, r.serial)
		r.serial++
		var id ecs.ID
		if p := core.Call(func() { id = ecs.TypeID(r.w, tp) }); p != nil {
			return fmt.Sprintf("registering a type after a rejected registration panicked: %v", p)
		}
		if id != core.RawIDs()[nt] {
			return fmt.Sprintf("the registration after a rejected one got id %v, want %d", id, nt)
		}
		r.types = append(r.types, tp)
		r.opaque = append(r.opaque, false)
		r.isRel = append(r.isRel, rel)
		r.ids = append(r.ids, id)
		r.label("registration under lock")
	case "fill":
		for len(r.types) < ecs.MaskTotalBits {
			if msg := r.register(op.Shape % 6); msg != "" {
				return msg
			}
		}
		r.label("registry filled to the limit")
		if msg := r.register(0); msg != "" {
			return msg
		}
		if msg := r.checkRegistry(); msg != "" {
			return "after the registration beyond the limit: " + msg
		}
	case "regres":
		tp := reflect.ArrayOf(70000+r.nRes, byteT)
		var id ecs.ResID
		p := core.Call(func() { id = ecs.ResourceTypeID(r.w, tp) })
		if r.nRes >= ecs.MaskTotalBits {
			if p == nil {
				return "registering a resource type beyond the limit did not panic"
			}
			return ""
		}
		if p != nil {
			return fmt.Sprintf("registering resource type number %d panicked: %v", r.nRes+1, p)
		}
		ids := ecs.ResourceIDs(r.w)
		if len(ids) != r.nRes+1 || ids[r.nRes] != id {
			return fmt.Sprintf("resource type number %d: ResourceIDs=%v, id %v", r.nRes+1, ids, id)
		}
		if got, ok := ecs.ResourceType(r.w, id); !ok || got != tp {
			return fmt.Sprintf("ResourceType(%v) = %v,%v", id, got, ok)
		}
		r.nRes++
		r.resTypes = append(r.resTypes, tp)
		r.resIDs = append(r.resIDs, id)
	case "reset":
		// Reset removes entities and resources, never registrations: both registries must be
		// exactly as before (checked after every op)
		if p := core.Call(func() { r.w.Reset() }); p != nil {
			return fmt.Sprintf("Reset panicked: %v", p)
		}
		for i := range r.ents {
			r.ents[i] = nil
		}
		if len(r.types) > 0 || r.nRes > 0 {
			r.label("Reset with registered types")
		}
	case "fillres":
		for r.nRes <= ecs.MaskTotalBits {
			if msg := r.apply(regOp{K: "regres"}); msg != "" {
				return msg
			}
			if r.nRes == ecs.MaskTotalBits {
				if msg := r.apply(regOp{K: "regres"}); msg != "" {
					return msg
				}
				break
			}
		}
		if n := len(ecs.ResourceIDs(r.w)); n != ecs.MaskTotalBits {
			return fmt.Sprintf("after filling the resource registry it has %d entries", n)
		}
	}
	return ""
}

func runRegCase(c *regReplay) (msg string, labels map[string]bool, nontrivial bool) {
	w := ecs.NewWorld(ecs.NewConfig().WithCapacityIncrement(c.Cap))
	r := &regWorld{w: &w, labels: map[string]bool{}}
	for k, op := range c.Ops {
		var m string
		if p := core.Call(func() { m = r.apply(op) }); p != nil {
			return fmt.Sprintf("op %d %+v panicked: %v", k, op, p), r.labels, r.nontri
		}
		if m != "" {
			return fmt.Sprintf("op %d %+v: %s", k, op, m), r.labels, r.nontri
		}
		if p := core.Call(func() {
			if m = r.checkRegistry(); m == "" {
				if m = r.checkResRegistry(k); m == "" {
					m = r.checkEntities()
				}
			}
		}); p != nil {
			return fmt.Sprintf("after op %d %+v: reading the registries or the tracked entities panicked: %v", k, op, p), r.labels, r.nontri
		}
		if m != "" {
			return fmt.Sprintf("after op %d %+v: %s", k, op, m), r.labels, r.nontri
		}
		if err := core.CheckInvariants(r.w); err != nil {
			// e.g. a table whose layout array is shorter than the registry: reads of high IDs go out of bounds
			return fmt.Sprintf("after op %d %+v: structural invariant broken: %v", k, op, err), r.labels, r.nontri
		}
	}
	return "", r.labels, r.nontri
}

func TestC16(t *testing.T) {
	withStats(t, "C16", func(st *core.Stats) {
		st.Rule = "sequences interleaving registrations of generated type shapes (through TypeID) and of static types through the generic ComponentID[T] (interface types, pointers, funcs, maps, slices, strings, channels, scalars, zero-sized, the bare ecs.Relation, structs with Relation first / later) (ecs.Relation embedded first / embedded later / absent; structs, arrays, zero-sized, non-struct) with entity creation, Add/Assign/Remove/Set of components drawn with a bias to the newest and highest IDs, re-registration of known types, registration in a locked world, filling the registry to the limit and one registration more, relation tables that are retired, outlive further registrations and are reused, and the same for the resource registry, and World.Reset (registrations survive it); after every op: ResourceIDs/ResourceType dense, stable and consistent and known component and resource types looked up again keep their IDs, ComponentIDs/ComponentInfo dense, stable and consistent, IsRelation <=> relation embedded first, and every tracked entity is read through EVERY registered ID (Has/Get/Mask, value bytes, Query(All(id)) finds it, Query.Get == World.Get); rejected registrations leave the registry unchanged and the next successful one gets the expected ID; non-trivial = a component whose type was registered after an entity's table existed, in a later 16-ID layout chunk, was added to that entity and read back"
		// enumerated, once per run (also when replaying): relation-ness of every static shape as seen by a generic filter, in
		// a scratch world (the generated histories ask again whenever they register one of these types)
		for tp, wr := range staticWithRelation {
			rel := false
			for _, sr := range staticRegs {
				if sr.tp == tp {
					rel = sr.rel
				}
			}
			w := ecs.NewWorld()
			p := core.Call(func() { wr(&w) })
			if msg := relProbeVerdict(tp, rel, p, w.IsLocked()); msg != "" {
				probeFail(t, "C16", "generic-relation-ness", msg)
			}
			st.Count("relation-ness probes through a generic filter", 1)
		}
		if path, ok := replaying(); ok {
			var r regReplay
			if err := core.ReadReplay(path, &r); err != nil {
				t.Fatalf("cannot read replay: %v", err)
			}
			if msg, _, _ := runRegCase(&r); msg != "" {
				t.Fatalf("C16 violated: %s", msg)
			}
			return
		}
		limit := ecs.MaskTotalBits
		rapid.Check(t, func(rt *rapid.T) {
			c := &regReplay{Property: "C16", Build: core.BuildName()}
			c.Cap = rapid.SampledFrom([]int{1, 2, 8, 128}).Draw(rt, "cap")
			nops := rapid.IntRange(3, 60).Draw(rt, "nops")
			burst := rapid.SampledFrom([]int{0, 0, 12, 15, 16, 31, 60, limit - 18, limit - 2}).Draw(rt, "burst")
			for i := 0; i < burst; i++ {
				c.Ops = append(c.Ops, regOp{K: "reg", Shape: rapid.IntRange(0, 5).Draw(rt, "shape")})
				if i == burst/2 {
					c.Ops = append(c.Ops, regOp{K: "new", T: []int{-1, 0}, E: 0})
				}
			}
			kinds := []string{"reg", "reg", "reg", "reg", "rereg", "new", "new", "add", "add", "add", "rem", "write", "write", "rment", "lockreg", "regres", "fill", "fillres", "fan", "relnew", "relnew", "retire", "reset", "regstatic", "regstatic"}
			for i := 0; i < nops; i++ {
				k := rapid.SampledFrom(kinds).Draw(rt, "k")
				if (k == "fill" || k == "fillres" || k == "reset") && rapid.IntRange(0, 3).Draw(rt, "rare") != 0 {
					k = "reg"
				}
				op := regOp{K: k, Shape: rapid.IntRange(0, 5).Draw(rt, "shape"), E: rapid.IntRange(0, 7).Draw(rt, "e"), Tok: rapid.Uint32Range(1, 1<<20).Draw(rt, "tok")}
				nT := rapid.IntRange(1, 4).Draw(rt, "nt")
				for j := 0; j < nT; j++ {
					if rapid.Bool().Draw(rt, "newest") {
						op.T = append(op.T, -1-rapid.IntRange(0, 3).Draw(rt, "back"))
					} else {
						op.T = append(op.T, rapid.IntRange(0, limit-1).Draw(rt, "t"))
					}
				}
				c.Ops = append(c.Ops, op)
			}
			cs := st.Begin()
			defer cs.End()
			for _, op := range c.Ops {
				cs.Feed(fmt.Sprintf("%s/%d/%d/%v", op.K, op.Shape, op.E, op.T))
			}
			cs.Sample(func() any {
				if len(c.Ops) > 40 {
					return map[string]any{"cap": c.Cap, "first_40_ops": c.Ops[:40], "ops": len(c.Ops)}
				}
				return c
			})
			msg, labels, nontri := runRegCase(c)
			for l := range labels {
				cs.Label(l)
			}
			if nontri {
				cs.NonTrivial()
			}
			if msg != "" {
				c.Message = msg
				core.WriteFail(c)
				rt.Fatalf("C16 violated: %s", msg)
			}
		})
	})
}
