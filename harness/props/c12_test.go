package props

// C12 — subscriptions and Dispatch deliver exactly the selected part of the event stream.

import (
	"encoding/json"
	"fmt"
	"testing"

	"verifharness/core"

	"pgregory.net/rapid"
)

func genSubSpec(rt *rapid.T, n int, kinds []string, sEnum *int) core.SubSpec {
	spec := core.SubSpec{Kind: rapid.SampledFrom(kinds).Draw(rt, "kind")}
	// the 64 subscription masks are walked round-robin so that every run covers all of them,
	// mixed with drawn ones
	if rapid.Bool().Draw(rt, "enumS") {
		spec.S = *sEnum % 64
		*sEnum++
	} else {
		spec.S = rapid.IntRange(0, 63).Draw(rt, "s")
	}
	switch rapid.IntRange(0, 3).Draw(rt, "cmode") {
	case 0: // no restriction
	case 1: // given but empty
		spec.HasC = true
		spec.C = []int{}
	default:
		spec.HasC = true
		perm := rapid.Permutation(seqInts(n)).Draw(rt, "comps")
		k := rapid.IntRange(1, n).Draw(rt, "ncomps")
		spec.C = append([]int{}, perm[:k]...)
	}
	return spec
}

func c12Config() core.SimConfig {
	return core.SimConfig{
		Prop:     "C12",
		Owned:    core.Own(core.CatSubscription),
		Verify:   core.FullVerify,
		Listener: "full",
	}
}

func TestC12(t *testing.T) {
	mix := fullMix()
	mix[core.OpRelSet] = 10
	mix[core.OpRegister] = 2
	mix[core.OpUnregister] = 1
	mix["useRegistered"] = 30 // batch calls also through registered filters
	mix[core.OpRelExchange] = 8
	mix[core.OpBatchSetRel] = 5
	mix[core.OpRelExchB] = 5
	mix[core.OpRemoveEnt] = 12
	mix[core.OpAddListener] = 0
	sEnum := 0
	runSimProp(t, &simProp{
		ID:       "C12",
		Cfg:      c12Config(),
		Mix:      mix,
		MaxPlain: 4, MinRel: 1, MaxRel: 3,
		Setup: func(rt *rapid.T, sim *core.Sim, g *core.Gen) {
			n := sim.M.U.N()
			nw := rapid.IntRange(1, 3).Draw(rt, "nsubworlds")
			for i := 0; i < nw; i++ {
				if rapid.IntRange(0, 2).Draw(rt, "dispatch?") == 0 {
					d := core.SubSpec{Kind: "dispatch"}
					ns := rapid.IntRange(0, 3).Draw(rt, "nsubs")
					for j := 0; j < ns; j++ {
						d.Subs = append(d.Subs, genSubSpec(rt, n, []string{"rec", "callback"}, &sEnum))
					}
					sim.AddSubscriberWorld(d)
				} else {
					sim.AddSubscriberWorld(genSubSpec(rt, n, []string{"rec", "rec", "callback"}, &sEnum))
				}
			}
			for _, sp := range sim.SubSpecs {
				sim.Case.Feed(fmt.Sprintf("%+v", sp))
			}
		},
		Draw: func(rt *rapid.T, sim *core.Sim, g *core.Gen) []core.Op {
			// occasionally add a sub-listener to a Dispatch mid-history
			if rapid.IntRange(0, 14).Draw(rt, "addlistener?") == 0 {
				sp := genSubSpec(rt, sim.M.U.N(), []string{"rec", "callback"}, &sEnum)
				op := core.Op{K: core.OpAddListener, Slot: rapid.IntRange(0, 2).Draw(rt, "world"), V: sp.S, Vals: sp.HasC, Add: sp.C}
				if sp.Kind == "callback" {
					op.N = 1
				}
				return []core.Op{op}
			}
			if op, ok := g.Draw(rt); ok {
				return []core.Op{op}
			}
			return nil
		},
		Rule: "a generated history over all mutating operations is executed in lock-step on a world with a recorder subscribed to everything and on 1-3 further worlds whose listener is (a) a listener restricted to event types S (all 64 masks are walked round-robin across cases, mixed with drawn ones) and components C (none / given but empty / a drawn subset incl. relation components), implemented by the harness or by listener.Callback, or (b) a listener.Dispatch built from 0-3 such sub-listeners, with further sub-listeners added by AddListener at generated points of the history; oracle per op: the events each restricted listener (each Dispatch sub-listener, from the moment it was added) received == the subsequence of the full stream selected by the documented rule implemented over plain sets, with identical content (type bits, masks, ID lists, old/new relation, old target) and order; non-trivial = for some listener the selected subsequence (of one op, or of the history since the listener was added) was neither empty nor the full stream",
		Observe: func(tr *tracker, op *core.Op) {
			if tr.sim.Flags["subs.partial"] > 0 {
				tr.cs.NonTrivial()
				tr.cs.Label("partial selection")
			}
			if tr.sim.Flags["subs.nonempty"] > 0 {
				tr.cs.Label("non-empty selection")
			}
		},
		Replay: func(t *testing.T, r *core.Replay, st *core.Stats) {
			sim := core.NewSim(t, c12Config(), r.Universe, st, nil)
			if r.Extra != nil {
				b, _ := json.Marshal(r.Extra)
				var specs []core.SubSpec
				if err := json.Unmarshal(b, &specs); err != nil {
					t.Fatalf("replay: bad listener specs: %v", err)
				}
				for _, sp := range specs {
					sim.AddSubscriberWorld(sp)
				}
			}
			for _, op := range r.Ops {
				sim.Apply(op)
				if sim.Done() {
					return
				}
			}
		},
	})
}
