package props

import (
	"os"
	"testing"

	"verifharness/core"

	"pgregory.net/rapid"
)

// failer adapts rapid.T / testing.T.
type failer = core.Failer

// edgeIDs are the component IDs at mask-word and layout-chunk boundaries.
var edgeIDs = []int{0, 1, 15, 16, 17, 31, 32, 47, 48, 63, 64, 65, 127, 128, 129, 191, 192, 193, 239, 240, 241, 254, 255}

// genRawID draws a raw ID number below n, biased to the edges.
func genRawID(n int) *rapid.Generator[int] {
	edges := []int{}
	for _, e := range edgeIDs {
		if e < n {
			edges = append(edges, e)
		}
	}
	return rapid.OneOf(rapid.SampledFrom(edges), rapid.IntRange(0, n-1))
}

// withStats runs body with a stats collector that is flushed at the end, also on failure.
func withStats(t *testing.T, prop string, body func(st *core.Stats)) {
	st := core.NewStats(prop)
	defer st.Flush()
	body(st)
}

// replayOr runs replay if VERIF_REPLAY is set and returns true.
func replaying() (string, bool) {
	p := core.ReplayPath()
	return p, p != ""
}

func TestMain(m *testing.M) {
	os.Exit(m.Run())
}
