package props

// C17 — entity dump/load reproduces the alive set and the future handle sequence.

import (
	"encoding/json"
	"fmt"
	"reflect"
	"testing"

	"verifharness/core"

	"github.com/mlange-42/arche/ecs"
	"pgregory.net/rapid"
)

type c17Step struct {
	K string `json:"k"` // new | batch | rm
	N int    `json:"n"` // batch count / index into the alive list
}

type c17Params struct {
	Cap      int       `json:"cap"`              // capacity increment of the receiving world
	PreReset int       `json:"prereset"`         // entities created (and Reset away) in the receiving world before the load
	PreEmpty bool      `json:"preempty"`         // ... all of them removed again before the Reset
	ViaJSON  bool      `json:"viajson"`          // pass the dump through JSON
	Indent   bool      `json:"indent,omitempty"` // ... written with json.MarshalIndent
	H2       []c17Step `json:"h2"`
	// RemoveAllFirst: the continuation starts with Batch.RemoveEntities(All()) in both worlds.
	RemoveAllFirst bool `json:"removeallfirst,omitempty"`
	// Mid: further history of the SOURCE world between the dump and the load. The loaded world
	// must reproduce the state of dump time (the dump is a value, not a view).
	Mid []c17Step `json:"mid,omitempty"`
}

func c17Config() core.SimConfig {
	return core.SimConfig{
		Prop:   "C17",
		Owned:  core.Own("dumpload"),
		Verify: core.VerifyOpts{Scan: true, Hooks: true, Dead: true},
	}
}

func c17Fail(sim *core.Sim, format string, args ...any) {
	sim.Report(&core.Finding{Cat: "dumpload", Msg: fmt.Sprintf(format, args...)})
}

func aliveSet(d *ecs.EntityDump) map[uint32]bool {
	m := map[uint32]bool{}
	for _, a := range d.Alive {
		m[a] = true
	}
	return m
}

func sameDump(a, b *ecs.EntityDump) string {
	if !reflect.DeepEqual(a.Entities, b.Entities) {
		return fmt.Sprintf("Entities differ: %v vs %v", a.Entities, b.Entities)
	}
	if a.Next != b.Next || a.Available != b.Available {
		return fmt.Sprintf("free list differs: next %d available %d vs next %d available %d", a.Next, a.Available, b.Next, b.Available)
	}
	if !reflect.DeepEqual(aliveSet(a), aliveSet(b)) {
		return fmt.Sprintf("alive ids differ: %v vs %v", a.Alive, b.Alive)
	}
	return ""
}

// dumpLoadContinuation is the part of a C17 case after the generated pre-history. A panic of
// any call in it (e.g. Alive of an old handle on a badly loaded world) is a violation.
func dumpLoadContinuation(sim *core.Sim, p *c17Params, cs *core.Case) {
	if pn := core.Call(func() { dumpLoadContinuationBody(sim, p, cs) }); pn != nil {
		if sim.Failed {
			panic(pn) // the failure report of the test framework, on its way up
		}
		c17Fail(sim, "a call on the source or the loaded world panicked: %v", pn)
	}
}

func dumpLoadContinuationBody(sim *core.Sim, p *c17Params, cs *core.Case) {
	A := sim.B.W
	dump := A.DumpEntities()
	// 0. EntityDump.Alive is documented as "IDs of all alive entities in query iteration order"
	{
		order := []uint32{}
		q := A.Query(ecs.All())
		for q.Next() {
			order = append(order, uint32(q.Entity().ID()))
		}
		if !reflect.DeepEqual(order, append([]uint32{}, dump.Alive...)) {
			c17Fail(sim, "EntityDump.Alive = %v, Query(All()) iterates ids %v (documented: alive ids in query iteration order)", dump.Alive, order)
			return
		}
	}
	// 1. loading into a world that has (or had, without reset) entities is refused
	if len(sim.B.H) > 0 {
		if pn := core.Call(func() { A.LoadEntities(&dump) }); pn == nil {
			c17Fail(sim, "LoadEntities into a world that has or had entities did not panic")
			return
		}
		if err := sim.B.Verify(sim.M, c17Config().Verify); err != nil {
			c17Fail(sim, "the refused LoadEntities changed the world: %v", err)
			return
		}
	}
	// 1b. delayed load: the source goes on after the dump; the dump must not change with it
	if len(p.Mid) > 0 {
		delayedLoad(sim, p, &dump, cs)
		return
	}
	// 2. transport
	loadDump := dump
	if p.ViaJSON {
		js, err := json.Marshal(dump)
		if p.Indent {
			// the same JSON value in encoding/json's indented form
			js, err = json.MarshalIndent(dump, "", "  ")
		}
		if err != nil {
			c17Fail(sim, "EntityDump does not marshal: %v", err)
			return
		}
		loadDump = ecs.EntityDump{}
		if err := json.Unmarshal(js, &loadDump); err != nil {
			c17Fail(sim, "EntityDump does not unmarshal: %v", err)
			return
		}
		if !reflect.DeepEqual(loadDump.Entities, dump.Entities) {
			c17Fail(sim, "entity handles changed in a JSON round trip: %v -> %v", dump.Entities, loadDump.Entities)
			return
		}
	}
	// 3. receiving world: fresh, or used and reset
	lw := ecs.NewWorld(ecs.NewConfig().WithCapacityIncrement(p.Cap))
	L := &lw
	if p.PreReset > 0 {
		ecs.NewBuilder(L).NewBatch(p.PreReset)
		if p.PreEmpty {
			L.Batch().RemoveEntities(ecs.All())
		}
		L.Reset()
		if cs != nil {
			cs.Label("load into a reset world")
		}
	}
	// a deep copy of what is loaded, and the alive answers at dump time (for step 6)
	ref := ecs.EntityDump{Entities: append([]ecs.Entity{}, loadDump.Entities...), Alive: append([]uint32{}, loadDump.Alive...), Next: loadDump.Next, Available: loadDump.Available}
	aliveAtDump := make([]bool, len(sim.B.H))
	for ord := range sim.B.H {
		aliveAtDump[ord] = sim.M.Ents[ord].Alive
	}
	if pn := core.Call(func() { L.LoadEntities(&loadDump) }); pn != nil {
		c17Fail(sim, "LoadEntities into a fresh/reset world panicked: %v", pn)
		return
	}
	// 4. same alive answers for every handle issued since the source world's last reset
	for ord, h := range sim.B.H {
		if A.Alive(h) != L.Alive(h) {
			c17Fail(sim, "Alive(#%d %v): source world %v, loaded world %v", ord, h, A.Alive(h), L.Alive(h))
			return
		}
	}
	if L.Alive(ecs.Entity{}) {
		c17Fail(sim, "zero entity alive in the loaded world")
		return
	}
	d2 := L.DumpEntities()
	if msg := sameDump(&dump, &d2); msg != "" {
		c17Fail(sim, "second dump (of the loaded world) differs from the first: %s", msg)
		return
	}
	if used := L.Stats().Entities.Used; used != sim.M.NAlive {
		c17Fail(sim, "loaded world reports %d used entities, source has %d", used, sim.M.NAlive)
		return
	}
	// 5. same future
	alive := []ecs.Entity{}
	for ord, h := range sim.B.H {
		if sim.M.Ents[ord].Alive {
			alive = append(alive, h)
		}
	}
	issued := map[ecs.Entity]bool{}
	for _, h := range sim.B.H {
		issued[h] = true
	}
	all := append([]ecs.Entity{}, sim.B.H...)
	consumed := 0
	if p.RemoveAllFirst {
		// the loaded world holds the alive entities in the dumped order, which is the source's query
		// order: removing everything at once, right after the load, recycles the ids in the same order
		var na, nl int
		if pn := core.Call(func() { na, nl = A.Batch().RemoveEntities(ecs.All()), L.Batch().RemoveEntities(ecs.All()) }); pn != nil {
			c17Fail(sim, "Batch.RemoveEntities(All()) right after the load panicked: %v", pn)
			return
		}
		if na != nl || na != len(alive) {
			c17Fail(sim, "Batch.RemoveEntities(All()) right after the load removed %d entities in the source world and %d in the loaded world (%d alive)", na, nl, len(alive))
			return
		}
		alive = alive[:0]
		if cs != nil {
			cs.Label("continuation starts with RemoveEntities(All())")
		}
	}
	for i, st := range p.H2 {
		switch st.K {
		case "new":
			var ha, hl ecs.Entity
			if pn := core.Call(func() { ha, hl = A.NewEntity(), L.NewEntity() }); pn != nil {
				c17Fail(sim, "continuation step %d: NewEntity panicked: %v", i, pn)
				return
			}
			if ha != hl {
				c17Fail(sim, "continuation step %d: NewEntity issued %v in the source world and %v in the loaded world", i, ha, hl)
				return
			}
			if issued[ha] {
				c17Fail(sim, "continuation step %d: handle %v was issued before", i, ha)
				return
			}
			issued[ha] = true
			alive = append(alive, ha)
			all = append(all, ha)
			consumed++
		case "batch":
			n := st.N
			if n < 1 {
				n = 1
			}
			var la, ll []ecs.Entity
			pn := core.Call(func() {
				qa := ecs.NewBuilder(A).NewBatchQ(n)
				for qa.Next() {
					la = append(la, qa.Entity())
				}
				ql := ecs.NewBuilder(L).NewBatchQ(n)
				for ql.Next() {
					ll = append(ll, ql.Entity())
				}
			})
			if pn != nil {
				c17Fail(sim, "continuation step %d: NewBatchQ(%d) panicked: %v", i, n, pn)
				return
			}
			if !reflect.DeepEqual(la, ll) {
				c17Fail(sim, "continuation step %d: NewBatchQ(%d) issued %v in the source world and %v in the loaded world", i, n, la, ll)
				return
			}
			for _, h := range la {
				if issued[h] {
					c17Fail(sim, "continuation step %d: handle %v was issued before", i, h)
					return
				}
				issued[h] = true
			}
			alive = append(alive, la...)
			all = append(all, la...)
			consumed += n
		case "rm", "rmhi":
			if len(alive) == 0 {
				continue
			}
			k := st.N % len(alive)
			if st.K == "rmhi" {
				// the alive entity with the highest id (the last slot of the pool, if it is alive)
				for j := range alive {
					if alive[j].ID() > alive[k].ID() {
						k = j
					}
				}
			}
			h := alive[k]
			alive = append(alive[:k], alive[k+1:]...)
			if pn := core.Call(func() { A.RemoveEntity(h); L.RemoveEntity(h) }); pn != nil {
				c17Fail(sim, "continuation step %d: RemoveEntity(%v) panicked: %v", i, h, pn)
				return
			}
		}
		for _, h := range all {
			if A.Alive(h) != L.Alive(h) {
				c17Fail(sim, "after continuation step %d: Alive(%v) is %v in the source world and %v in the loaded world", i, h, A.Alive(h), L.Alive(h))
				return
			}
		}
	}
	da, dl := A.DumpEntities(), L.DumpEntities()
	if msg := sameDump(&da, &dl); msg != "" {
		c17Fail(sim, "after the continuation the dumps of source and loaded world differ: %s", msg)
		return
	}
	// 6. the dump is a value: the loaded world's later life must not have changed it, and loading
	// it once more (restoring the same checkpoint again) reproduces the state at dump time
	if msg := sameDump(&loadDump, &ref); msg != "" {
		c17Fail(sim, "the dump changed while the world loaded from it went on: %s", msg)
		return
	}
	tw := ecs.NewWorld(ecs.NewConfig().WithCapacityIncrement(p.Cap))
	T := &tw
	if pn := core.Call(func() { T.LoadEntities(&loadDump) }); pn != nil {
		c17Fail(sim, "loading the same dump a second time (into another fresh world) panicked: %v", pn)
		return
	}
	for ord, h := range sim.B.H {
		if T.Alive(h) != aliveAtDump[ord] {
			c17Fail(sim, "the same dump loaded a second time, after the first loaded world went on: Alive(#%d %v)=%v, at dump time it was %v", ord, h, T.Alive(h), aliveAtDump[ord])
			return
		}
	}
	dt := T.DumpEntities()
	if msg := sameDump(&dt, &ref); msg != "" {
		c17Fail(sim, "the dump of a world loaded from the same dump a second time differs from the dump: %s", msg)
		return
	}
	if cs != nil {
		if dump.Available >= 2 && consumed > int(dump.Available) {
			cs.NonTrivial()
		}
		switch {
		case dump.Available >= 8:
			cs.Label("free list >= 8 at dump")
		case dump.Available >= 2:
			cs.Label("free list >= 2 at dump")
		}
		if p.ViaJSON {
			cs.Label("dump passed through JSON")
			if p.Indent {
				cs.Label("dump passed through indented JSON")
			}
		}
	}
}

// delayedLoad: the source world changes after the dump was taken; a world loaded from the dump
// afterwards must equal a world loaded from a deep copy made at dump time.
func delayedLoad(sim *core.Sim, p *c17Params, dump *ecs.EntityDump, cs *core.Case) {
	A := sim.B.W
	ref := ecs.EntityDump{Entities: append([]ecs.Entity{}, dump.Entities...), Alive: append([]uint32{}, dump.Alive...), Next: dump.Next, Available: dump.Available}
	aliveAt := map[ecs.Entity]bool{}
	alive := []ecs.Entity{}
	for ord, h := range sim.B.H {
		aliveAt[h] = sim.M.Ents[ord].Alive
		if sim.M.Ents[ord].Alive {
			alive = append(alive, h)
		}
	}
	for _, st := range p.Mid {
		switch st.K {
		case "new":
			alive = append(alive, A.NewEntity())
		case "batch":
			q := ecs.NewBuilder(A).NewBatchQ(st.N%5 + 1)
			for q.Next() {
				alive = append(alive, q.Entity())
			}
		case "rm":
			if len(alive) > 0 {
				k := st.N % len(alive)
				A.RemoveEntity(alive[k])
				alive = append(alive[:k], alive[k+1:]...)
			}
		}
	}
	lw := ecs.NewWorld(ecs.NewConfig().WithCapacityIncrement(p.Cap))
	rw := ecs.NewWorld(ecs.NewConfig().WithCapacityIncrement(p.Cap))
	L, R := &lw, &rw
	L.LoadEntities(dump)
	R.LoadEntities(&ref)
	for h, want := range aliveAt {
		if L.Alive(h) != want {
			c17Fail(sim, "a world loaded from a dump after the source world went on: Alive(%v)=%v, at dump time it was %v (the dump changed with the source world)", h, L.Alive(h), want)
			return
		}
	}
	dl, dr := L.DumpEntities(), R.DumpEntities()
	if msg := sameDump(&dl, &dr); msg != "" {
		c17Fail(sim, "a dump loaded after the source world went on differs from a copy of it made at dump time: %s", msg)
		return
	}
	for i := 0; i < 12; i++ {
		if a, b := L.NewEntity(), R.NewEntity(); a != b {
			c17Fail(sim, "after a delayed load, creation %d issues %v; a world loaded from a copy made at dump time issues %v", i, a, b)
			return
		}
	}
	if cs != nil {
		cs.Label("delayed load (source changed after the dump)")
		if dump.Available >= 1 {
			cs.NonTrivial()
		}
	}
}

func entityJSONRoundTrip(t *testing.T, st *core.Stats) {
	// handles survive a JSON round trip unchanged, for arbitrary (id, generation)
	rapid.Check(t, func(rt *rapid.T) {
		id := rapid.OneOf(rapid.Uint32(), rapid.SampledFrom([]uint32{0, 1, 255, 256, 1<<31 - 1, 1 << 31, 1<<32 - 1})).Draw(rt, "id")
		gen := rapid.OneOf(rapid.Uint32(), rapid.SampledFrom([]uint32{0, 1, 1<<32 - 1})).Draw(rt, "gen")
		src := fmt.Sprintf("[%d,%d]", id, gen)
		// the same JSON value with insignificant white space (what json.MarshalIndent, json.Indent or
		// another writer produce)
		ws := rapid.SliceOfN(rapid.SampledFrom([]string{"", "", " ", "\n", "\t", "\r\n  "}), 5, 5).Draw(rt, "ws")
		spaced := fmt.Sprintf("%s[%s%d%s,%s%d%s]", ws[0], ws[1], id, ws[2], ws[3], gen, ws[4])
		var es ecs.Entity
		if err := json.Unmarshal([]byte(spaced), &es); err != nil || es.ID() != id || es.Generation() != gen {
			rt.Fatalf("C17 violated: %q unmarshals to %v (%v)", spaced, es, err)
		}
		var ea [1]ecs.Entity
		if err := json.Unmarshal([]byte("["+spaced+"]"), &ea); err != nil || ea[0] != es {
			rt.Fatalf("C17 violated: %q inside an array unmarshals to %v (%v)", spaced, ea[0], err)
		}
		var e ecs.Entity
		if err := json.Unmarshal([]byte(src), &e); err != nil {
			rt.Fatalf("C17 violated: Entity does not unmarshal from %s: %v", src, err)
		}
		if e.ID() != id || e.Generation() != gen {
			rt.Fatalf("C17 violated: %s unmarshals to id %d generation %d", src, e.ID(), e.Generation())
		}
		out, err := json.Marshal(e)
		if err != nil || string(out) != src {
			rt.Fatalf("C17 violated: %s -> Entity -> %s (%v)", src, out, err)
		}
		var e2 ecs.Entity
		if err := json.Unmarshal(out, &e2); err != nil || e2 != e {
			rt.Fatalf("C17 violated: second round trip of %s gives %v (%v)", src, e2, err)
		}
		st.Count("json_round_trips", 1)
	})
}

func TestC17(t *testing.T) {
	mix := core.Mix{
		core.OpNew: 12, core.OpNewWith: 2, core.OpBuildNew: 4, core.OpBuildBatch: 10,
		core.OpRemoveEnt: 24, core.OpRemoveEnts: 4, core.OpReset: 1, core.OpAdd: 3, core.OpRemove: 1, core.OpRelSet: 2,
	}
	runSimProp(t, &simProp{
		ID:       "C17",
		Cfg:      c17Config(),
		Mix:      mix,
		Lim:      core.Limits{MaxAlive: 60, MaxTotal: 300, MaxBatch: 9, MaxSlots: 1},
		MaxPlain: 2, MaxRel: 1,
		Once: func(t *testing.T, st *core.Stats) {
			t.Run("json", func(t *testing.T) { entityJSONRoundTrip(t, st) })
		},
		Rule: "the dump is a value (the loaded world's later life must not change it, and loading it a second time after the continuation reproduces the state at dump time); pre-history of single and batch creations, removals, RemoveEntities and Reset (any free-list shape) on a world of generated capacity increment; then DumpEntities, optionally through encoding/json, LoadEntities into a fresh or a used-and-reset world (entities still alive, or all removed, at the Reset) of another generated capacity increment; EntityDump.Alive equals the source's Query(All()) id order (as documented); then a generated continuation of NewEntity, NewBatchQ(n) and RemoveEntity applied to both worlds; oracle: Alive equal for every handle issued since the source's last reset and for all later ones after every continuation step, handles issued during the continuation identical in both worlds and never issued before, the loaded world's dump equals the source's (Entities, Next, Available, alive ids as a set) before and after the continuation, used count equal, loading into the non-empty source world panics and changes nothing; in a quarter of the cases the source world goes on (creations/removals) between the dump and the load, and the loaded world must equal one loaded from a deep copy taken at dump time; separately, Entity JSON round trips for arbitrary (id, generation) and generated insignificant white space (the dump too goes through json.MarshalIndent in half of the JSON cases); non-trivial = free list of length >= 2 at dump time and a continuation that creates more entities than the free list holds",
		Finish: func(rt *rapid.T, sim *core.Sim, tr *tracker) {
			p := &c17Params{
				Cap:      rapid.SampledFrom([]int{1, 2, 3, 8, 128}).Draw(rt, "loadcap"),
				PreReset: rapid.SampledFrom([]int{0, 0, 1, 5, 40}).Draw(rt, "prereset"),
				ViaJSON:  rapid.Bool().Draw(rt, "viajson"),
				PreEmpty: rapid.Bool().Draw(rt, "preempty"),
			}
			p.Indent = p.ViaJSON && rapid.Bool().Draw(rt, "indent")
			// (RemoveAllFirst is not generated any more: the order in which a bulk removal recycles ids is
			// not specified, see DESIGN 8.3; replay files that carry it are still honoured)
			if rapid.IntRange(0, 5).Draw(rt, "pad64") == 0 {
				// the pool holds exactly 64*m ids at dump time (word boundary of the per-id bit sets)
				for (len(sim.B.W.DumpEntities().Entities)-1)%64 != 0 && !sim.Done() {
					sim.Apply(core.Op{K: core.OpNew, T: core.TNone})
				}
				if sim.Done() {
					return
				}
				tr.cs.Label("pool padded to a multiple of 64 ids at dump time")
			}
			n := rapid.IntRange(0, 30).Draw(rt, "nh2")
			for i := 0; i < n; i++ {
				k := rapid.SampledFrom([]string{"new", "new", "new", "batch", "batch", "rm", "rm", "rmhi"}).Draw(rt, "h2k")
				p.H2 = append(p.H2, c17Step{K: k, N: rapid.IntRange(0, 20).Draw(rt, "h2n")})
			}
			if rapid.IntRange(0, 3).Draw(rt, "delayed") == 0 {
				nm := rapid.IntRange(1, 12).Draw(rt, "nmid")
				for i := 0; i < nm; i++ {
					p.Mid = append(p.Mid, c17Step{K: rapid.SampledFrom([]string{"new", "batch", "rm", "rm", "rm"}).Draw(rt, "midk"), N: rapid.IntRange(0, 20).Draw(rt, "midn")})
				}
			}
			sim.ReplayExtra = p
			tr.cs.Feed(fmt.Sprintf("%+v", *p))
			dumpLoadContinuation(sim, p, tr.cs)
		},
		Replay: func(t *testing.T, r *core.Replay, st *core.Stats) {
			cfg := c17Config()
			cfg.Listener = r.Listener
			sim := core.NewSim(t, cfg, r.Universe, st, nil)
			for _, op := range r.Ops {
				sim.Apply(op)
				if sim.Done() {
					return
				}
			}
			p := &c17Params{Cap: 1}
			if r.Extra != nil {
				b, _ := json.Marshal(r.Extra)
				if err := json.Unmarshal(b, p); err != nil {
					t.Fatalf("replay: bad continuation parameters: %v", err)
				}
			}
			sim.ReplayExtra = p
			dumpLoadContinuation(sim, p, nil)
		},
	})
}
