package props

// C19, generic part: worlds driven concurrently through package generic.

import (
	"fmt"
	"sync"
	"testing"

	"verifharness/core"

	"pgregory.net/rapid"
)

type c19GenCase struct {
	Property string    `json:"property"`
	Test     string    `json:"test"`
	Build    string    `json:"build"`
	Message  string    `json:"message"`
	Worlds   []gReplay `json:"worlds"`
}

// runC19Generic replays every history alone (reference: verdict and final hidden-state digest of both
// lock-step worlds), then all of them concurrently, one goroutine per history.
func runC19Generic(c *c19GenCase) string {
	n := len(c.Worlds)
	type res struct{ msg, shape string }
	run := func(i int) res {
		msg, g := runGenericCaseW(&c.Worlds[i])
		return res{msg, core.Shape(g.Wg) + "\n--\n" + core.Shape(g.Wc)}
	}
	alone := make([]res, n)
	for i := range alone {
		alone[i] = run(i)
		if alone[i].msg != "" {
			return "" // another property's business (C18 decides it)
		}
	}
	got := make([]res, n)
	var wg sync.WaitGroup
	start := make(chan struct{})
	for i := 0; i < n; i++ {
		wg.Add(1)
		go func(i int) {
			defer wg.Done()
			defer func() {
				if p := recover(); p != nil {
					got[i].msg = fmt.Sprintf("panic: %v", p)
				}
			}()
			<-start
			got[i] = run(i)
		}(i)
	}
	close(start)
	wg.Wait()
	for i := 0; i < n; i++ {
		if got[i].msg != "" {
			return fmt.Sprintf("world %d, driven through package generic concurrently with %d others, fails where it passed alone: %s", i, n-1, got[i].msg)
		}
		if got[i].shape != alone[i].shape {
			return fmt.Sprintf("world %d, driven through package generic concurrently with %d others, ends in a different state than alone", i, n-1)
		}
	}
	return ""
}

func TestC19Generic(t *testing.T) {
	withStats(t, "C19", func(st *core.Stats) {
		st.Rule = "generic part: 2-5 histories of generic calls (MapN/FilterN/QueryN of all arities, Map, Exchange; the op generator of C18) are generated and run alone, then replayed concurrently, one goroutine per history (each history drives its own pair of worlds), under the race detector: same verdict and same final hidden-state digest as alone; non-trivial = >= 2 histories with >= 8 ops each"
		if path, ok := replaying(); ok {
			var c c19GenCase
			if err := core.ReadReplay(path, &c); err != nil {
				t.Fatalf("cannot read replay: %v", err)
			}
			for rep := 0; rep < 20; rep++ {
				if msg := runC19Generic(&c); msg != "" {
					t.Fatalf("C19 violated: %s", msg)
				}
			}
			return
		}
		caseNo := 0
		rapid.Check(t, func(rt *rapid.T) {
			c := &c19GenCase{Property: "C19", Test: "TestC19Generic", Build: core.BuildName()}
			n := rapid.IntRange(2, 5).Draw(rt, "nworlds")
			busy := 0
			cs := st.Begin()
			defer cs.End()
			for i := 0; i < n; i++ {
				w := gReplay{Property: "C19", Build: core.BuildName(), Cap: rapid.SampledFrom([]int{1, 2, 8, 128}).Draw(rt, "cap")}
				g := newGWorld(w.Cap)
				focus := caseNo % len(gAdapters)
				caseNo++
				nops := rapid.IntRange(3, 25).Draw(rt, "nops")
				for k := 0; k < nops; k++ {
					op := g.genGenericOp(rt, focus)
					w.Ops = append(w.Ops, op)
					var msg string
					if p := core.Call(func() { msg = g.apply(&w.Ops[k]) }); p != nil || msg != "" || g.compare() != "" {
						// out of scope here: keep the history up to the step before
						w.Ops = w.Ops[:k]
						cs.Label("a world's own history was cut short")
						break
					}
					cs.Feed(fmt.Sprintf("%+v", op))
				}
				if len(w.Ops) >= 8 {
					busy++
				}
				c.Worlds = append(c.Worlds, w)
			}
			if busy >= 2 {
				cs.NonTrivial()
			}
			cs.Label(fmt.Sprintf("generic worlds=%d", n))
			cs.Sample(func() any { return c })
			writeCurrentCaseAny(c)
			if msg := runC19Generic(c); msg != "" {
				c.Message = msg
				core.WriteFail(c)
				rt.Fatalf("C19 violated: %s", msg)
			}
		})
	})
}
