package props

// C15 — Reset returns the world to the behaviour of a fresh one.

import (
	"testing"

	"verifharness/core"

	"pgregory.net/rapid"
)

func TestC15(t *testing.T) {
	mix := relMix()
	mix[core.OpReset] = 4
	mix[core.OpRegister] = 6
	mix[core.OpUnregister] = 1
	mix[core.OpQuery] = 5
	mix[core.OpResAdd] = 2
	mix[core.OpResRemove] = 1
	mix[core.OpNew] = 6
	mix[core.OpNewWith] = 3
	mix[core.OpSet] = 4
	mix["useRegistered"] = 50
	runSimProp(t, &simProp{
		ID: "C15",
		Cfg: core.SimConfig{
			Prop:        "C15",
			Owned:       core.Own(core.CatResetDiff, core.CatPanicReset),
			Verify:      core.FullVerify,
			CheckCache:  true,
			Listener:    "full",
			CheckEvents: true,
			FreshTwin:   true,
		},
		Mix:      mix,
		MaxPlain: 4, MinRel: 1, MaxRel: 3,
		Setup: func(rt *rapid.T, sim *core.Sim, g *core.Gen) {
			g.TargetRemovalPct = 40
			g.DeadFilterTargets = true
		},
		// now and then nested queries with generated release orders (lock bookkeeping after Reset)
		Draw: func(rt *rapid.T, sim *core.Sim, g *core.Gen) []core.Op {
			if rapid.IntRange(0, 19).Draw(rt, "lock?") == 0 {
				lo := g.DrawLockOp(rt, sim.Step)
				if lo.K == core.OpLockEpisode {
					if len(lo.Sub) > 4 {
						lo.Sub = lo.Sub[:4]
					}
					// no type registration attempts here: the fresh twin must keep the same registry
					sub := lo.Sub[:0]
					for _, a := range lo.Sub {
						if a.K != core.OpRegisterNew {
							sub = append(sub, a)
						}
					}
					lo.Sub = sub
					return []core.Op{lo}
				}
			}
			if op, ok := g.Draw(rt); ok {
				return []core.Op{op}
			}
			return nil
		},
		Rule: "segments H1, Reset, H2, Reset, ... (on average 2-3 resets per history) of relation-heavy operations with registered filters (incl. relation filters whose target handle is re-issued after the reset), resources, a listener, retired tables and dead targets left behind; after every Reset a brand-new world with the same types, the same filter values registered and a listener is created and driven in lock-step with the reset world. Oracle: right after Reset no entities, no resources, unlocked; during the segment every observable of BOTH worlds equals the same model after every op (components, values, targets, resources, plain and registered queries incl. Count, events per op), creations issue the same handles on both (until a batch call over several source tables makes row and recycling order a matter of table iteration order), and a finding is reported only if the fresh world passes where the reset world fails; IDs and registered filters from before the reset keep working; non-trivial = a segment after a reset that followed a target death or table retirement, in which a registered filter selects >= 1 entity or entities are put under a target",
		Observe: func(tr *tracker, op *core.Op) {
			s := tr.sim
			if op.K == core.OpReset {
				tr.counters["resets"]++
				if tr.flags["dirty"] {
					tr.flag("reset-after-dirty")
				}
				tr.flags["dirty"] = false
				switch {
				case tr.counters["resets"] >= 3:
					tr.cs.Label("resets >= 3")
				case tr.counters["resets"] >= 2:
					tr.cs.Label("resets >= 2")
				}
				return
			}
			_, retired, _ := core.TableCounts(s.B.W)
			if s.TargetDied || retired > 0 || len(s.DeadTargets) > 0 {
				tr.flags["dirty"] = true
			}
			if s.F != nil && tr.flags["reset-after-dirty"] {
				if op.T >= 0 && op.Ill == "" {
					tr.cs.NonTrivial()
				}
				for _, c := range s.B.Regs {
					if c == nil {
						continue
					}
					if yes, _ := s.B.Expect(c, s.M); len(yes) > 0 {
						tr.cs.NonTrivial()
						break
					}
				}
			}
			if s.RawDiverged {
				tr.cs.Label("raw handles no longer comparable (batch call over several tables)")
			}
		},
	})
}
