package props

// C07 — registering a filter never changes what it selects.

import (
	"testing"

	"verifharness/core"

	"pgregory.net/rapid"
)

func TestC07(t *testing.T) {
	mix := relMix()
	mix[core.OpRegister] = 10
	mix[core.OpUnregister] = 3
	mix[core.OpReset] = 2
	mix[core.OpQuery] = 6
	mix["useRegistered"] = 60
	runSimProp(t, &simProp{
		ID: "C07",
		Cfg: core.SimConfig{
			Prop:       "C07",
			Owned:      core.Own(core.CatCacheDiff, core.CatInvCache, core.CatPanicCached),
			Verify:     core.FullVerify,
			CheckCache: true,
		},
		Mix:      mix,
		MaxPlain: 4, MinRel: 0, MaxRel: 3,
		Once: func(t *testing.T, st *core.Stats) {
			// beyond the generated sizes: more registrations in one world's life than fit 16 bits
			if msg := cacheChurnProbe(66000); msg != "" {
				probeFail(t, "C07", "cachechurn", msg)
			}
			st.Count("filter_churn_probes", 1)
		},
		Setup: func(rt *rapid.T, sim *core.Sim, g *core.Gen) {
			g.TargetRemovalPct = 40
			g.DeadFilterTargets = true
		},
		Rule: "(enumerated once per run: 66000 Register/Unregister rounds next to one long-lived registration, compared with the originals around the 16-bit boundary) relation-heavy histories plus Cache.Register/Unregister at arbitrary times (before any matching table exists, between, after; up to 5 registrations alive) over the full filter grammar (relation filters with alive, dead, zero and - across Reset - re-issued targets), Reset cycles, and 60% of all queries, batch operations and RemoveEntities issued through a registered filter; oracle after EVERY op and for EVERY registered filter: Query(&cached) yields the same entity set and Count as Query(original); a batch call through &cached must affect exactly the set Query(original) yielded immediately before it (the model then applies the single-entity rule to that set and the world must match); Unregister returns the original filter value; hook: cached table list == list recomputed from scratch, removal index consistent; non-trivial = while a filter was registered a table was retired (or the world reset) and afterwards that filter selected >= 1 entity",
		Observe: func(tr *tracker, op *core.Op) {
			s := tr.sim
			_, retired, _ := core.TableCounts(s.B.W)
			if op.K == core.OpRegister {
				tr.counters["regstep"+string(rune('0'+op.Slot))] = tr.step
			}
			anyReg := false
			for _, c := range s.B.Regs {
				if c != nil {
					anyReg = true
				}
			}
			if anyReg && (retired > tr.counters["retired"] || op.K == core.OpReset || (retired < 0 && s.TargetDied)) {
				tr.flag("retire-while-registered")
				tr.cs.Label("table retired / world reset while a filter is registered")
			}
			if retired >= 0 {
				tr.counters["retired"] = retired
			}
			if tr.flags["retire-while-registered"] {
				for _, c := range s.B.Regs {
					if c == nil {
						continue
					}
					if yes, _ := s.B.Expect(c, s.M); len(yes) > 0 {
						tr.cs.NonTrivial()
						break
					}
				}
			}
			if op.Reg && op.K != core.OpQuery {
				tr.cs.Label("batch op through registered filter: " + op.K)
			}
			if op.K == core.OpRegister && op.F != nil && op.F.T == "rel" {
				tr.cs.Label("registered relation filter")
			}
		},
	})
}
