package props

// C10 — illegal operations panic, and single-entity failures change nothing.

import (
	"strings"
	"testing"

	"verifharness/core"

	"github.com/mlange-42/arche/ecs"
	"pgregory.net/rapid"
)

// configPanics: NewWorld with two configs / a non-positive capacity increment must panic.
func configPanics(t *testing.T, st *core.Stats) {
	cases := []struct {
		name string
		f    func()
	}{
		{"NewWorld(two configs)", func() { ecs.NewWorld(ecs.NewConfig(), ecs.NewConfig()) }},
		{"CapacityIncrement=0", func() { ecs.NewWorld(ecs.NewConfig().WithCapacityIncrement(0)) }},
		{"CapacityIncrement=-3", func() { ecs.NewWorld(ecs.NewConfig().WithCapacityIncrement(-3)) }},
	}
	for _, c := range cases {
		if p := core.Call(c.f); p == nil {
			core.WriteFail(&core.Replay{Property: "C10", Build: core.BuildName(), Message: c.name + " did not panic", Universe: &core.Universe{Plain: []int{0}, IDs: []int{0}, Cap: 1}})
			t.Fatalf("C10 violated: %s did not panic", c.name)
		}
		st.Count("enumerated", 1)
	}
}

func TestC10(t *testing.T) {
	mix := fullMix()
	mix[core.OpDeadRead] = 6
	mix[core.OpCacheIll] = 3
	mix[core.OpRegister] = 4
	mix[core.OpUnregister] = 3
	mix[core.OpResAdd] = 3
	mix[core.OpResRemove] = 2
	mix[core.OpQuery] = 8
	mix[core.OpReset] = 1
	mix[core.OpLockedRegistration] = 2
	mix["useRegistered"] = 30
	runSimProp(t, &simProp{
		ID: "C10",
		Cfg: core.SimConfig{
			Prop:   "C10",
			Owned:  core.Own(core.CatIllegal, core.CatDeadTarget, core.CatCorrupt),
			Verify: core.FullVerify,
			// a refused call that leaves a lock behind has changed the world
			OwnedIf: func(s *core.Sim, f *core.Finding) bool {
				return f.Cat == core.CatLock && strings.Contains(f.Msg, "unregistered cached filter")
			},
		},
		Mix:      mix,
		MaxPlain: 5, MaxRel: 3,
		Once: configPanics,
		Setup: func(rt *rapid.T, sim *core.Sim, g *core.Gen) {
			g.Illegal = core.AllIllegal
			g.IllegalPct = 35
			g.IllegalQuerySteps = true
			if rapid.IntRange(0, 19).Draw(rt, "typelimit") == 0 {
				g.Mix = core.Mix{}
				for k, v := range mix {
					g.Mix[k] = v
				}
				g.Mix[core.OpTypeLimit] = 1
			}
		},
		Rule: "legal histories with injected illegal calls (35% of all ops) of every class the documentation declares illegal: removed / recycled entity in every single-entity API and read accessor, add-present, remove-absent, duplicate IDs, same ID added and removed, second relation component, relation call naming a missing or a non-relation component (incl. ID 0), target without WithRelation, dead relation target through every API, batch count <= 0, EntityAt(-1)/EntityAt(Count)/Step(0)/Step(-1) on plain, registered and batch-result queries, Set of a missing component, Assign/Builder.Add/Relations.Exchange without components, duplicate/missing resource, register a registered filter / unregister twice, one component type beyond the limit, a relation type refused in a locked world followed by relation calls on the next registered plain type, NewWorld with two configs or a non-positive capacity increment; oracle: every such call panics; for calls addressing a single entity (and the cache/resource/registry/query calls) the world afterwards equals the unchanged model in every observable (entities, components, values, targets, resources, lock state, query results, structural invariants, and - through the hook - the entity pool, i.e. the future handles), and the history continues and keeps matching the model; non-trivial = >= 2 different illegal classes in one history with a legal mutating op between them",
		Observe: func(tr *tracker, op *core.Op) {
			if op.Ill != "" {
				tr.cs.Label("illegal: " + op.Ill)
				if last, ok := tr.counters["lastIllStep"], tr.flags["sawIll"]; ok && tr.flags["legalSince"] && tr.flags["ill:"+op.Ill] == false && last >= 0 {
					tr.cs.NonTrivial()
				}
				tr.flags["sawIll"] = true
				tr.flags["ill:"+op.Ill] = true
				tr.flags["legalSince"] = false
				tr.counters["lastIllStep"] = tr.step
			} else if isStructural(op.K) {
				tr.flags["legalSince"] = true
			}
		},
	})
}
