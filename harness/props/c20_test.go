package props

// C20 — resources: one value per type per world, exact pointer, strict add/remove.

import (
	"fmt"
	"reflect"
	"strings"
	"testing"

	"verifharness/core"

	"github.com/mlange-42/arche/ecs"
	"github.com/mlange-42/arche/generic"
	"pgregory.net/rapid"
)

// static resource types, used through all three access styles
type resA struct{ V int }
type resB struct{ V [3]uint64 }
type resC struct{}
type resD struct{ S string }

const nStaticRes = 4

type resOp struct {
	K string `json:"k"` // add | rem | illadd | illrem | regres | regcomp | ent | lock | unlock | reset | get
	I int    `json:"i"` // resource index (static: 0..3, dynamic: 4+k)
	S int    `json:"s"` // access style 0 ID-based, 1 generic.Resource, 2 AddResource/GetResource (static only)
}

type resReplay struct {
	Property string  `json:"property"`
	Test     string  `json:"test,omitempty"`
	Build    string  `json:"build"`
	Message  string  `json:"message"`
	NDyn     int     `json:"ndyn"`
	Order    []int   `json:"order"` // registration order of the static types among the dynamic ones
	Ops      []resOp `json:"ops"`
}

// dynResType: distinct Go types that are related to each other and to the static types the way real
// resource types can be (a type and the pointer to it, a slice of it, a struct wrapping it): every
// distinct Go type is its own resource type.
func dynResType(k int) reflect.Type {
	switch k {
	case 0:
		return reflect.PointerTo(reflect.TypeOf(resA{}))
	case 1:
		return reflect.SliceOf(reflect.TypeOf(resB{}))
	case 2:
		return reflect.StructOf([]reflect.StructField{{Name: "V", Type: reflect.TypeOf(int(0))}}) // same layout as resA
	}
	if k%2 == 1 {
		return reflect.PointerTo(dynResType(k - 1))
	}
	return reflect.ArrayOf(40000+k, reflect.TypeOf(byte(0)))
}

// resWorld is world + model.
type resWorld struct {
	w       *ecs.World
	ids     []ecs.ResID // by resource index
	types   []reflect.Type
	present []bool
	ptr     []any
	nReg    int // number of registered resource types
	ents    []ecs.Entity
	queries []ecs.Query
	compN   int
	a       generic.Resource[resA]
	b       generic.Resource[resB]
	c       generic.Resource[resC]
	d       generic.Resource[resD]
}

func staticType(i int) reflect.Type {
	switch i {
	case 0:
		return reflect.TypeOf(resA{})
	case 1:
		return reflect.TypeOf(resB{})
	case 2:
		return reflect.TypeOf(resC{})
	}
	return reflect.TypeOf(resD{})
}

func (r *resWorld) fail(format string, args ...any) string { return fmt.Sprintf(format, args...) }

// register registers resource index i (if not yet) and checks the density of IDs.
func (r *resWorld) register(i int) string {
	if r.types[i] != nil {
		return ""
	}
	var tp reflect.Type
	var id ecs.ResID
	if i < nStaticRes {
		tp = staticType(i)
		switch i {
		case 0:
			r.a = generic.NewResource[resA](r.w)
			id = r.a.ID()
		case 1:
			id = ecs.ResourceID[resB](r.w)
			r.b = generic.NewResource[resB](r.w)
		case 2:
			r.c = generic.NewResource[resC](r.w)
			id = r.c.ID()
		default:
			id = ecs.ResourceTypeID(r.w, tp)
			r.d = generic.NewResource[resD](r.w)
		}
	} else {
		tp = dynResType(i - nStaticRes)
		id = ecs.ResourceTypeID(r.w, tp)
	}
	r.types[i] = tp
	r.ids[i] = id
	ids := ecs.ResourceIDs(r.w)
	if len(ids) != r.nReg+1 {
		return r.fail("after registering resource type number %d, ResourceIDs has %d entries", r.nReg+1, len(ids))
	}
	if ids[r.nReg] != id {
		return r.fail("resource type number %d got id %v, ResourceIDs lists %v at that position", r.nReg+1, id, ids[r.nReg])
	}
	// dense in its own registry, independent of component registrations
	for j := 0; j < r.nReg; j++ {
		if ids[j] == id {
			return r.fail("new resource type got the id %v of an earlier one", id)
		}
	}
	if got, ok := ecs.ResourceType(r.w, id); !ok || got != tp {
		return r.fail("ResourceType(%v) = %v,%v, registered type %v", id, got, ok, tp)
	}
	if again := ecs.ResourceTypeID(r.w, tp); again != id {
		return r.fail("second ResourceTypeID of %v gives %v, first gave %v", tp, again, id)
	}
	r.nReg++
	return ""
}

// newValue returns the pointer to add for resource i; nilPtr: a typed nil pointer (a degenerate but
// legal value: the slot is occupied, Get returns exactly that nil pointer).
func (r *resWorld) newValue(i int, nilPtr bool) any {
	if nilPtr {
		switch i {
		case 0:
			return (*resA)(nil)
		case 1:
			return (*resB)(nil)
		case 2:
			return (*resC)(nil)
		case 3:
			return (*resD)(nil)
		}
	}
	switch i {
	case 0:
		return &resA{V: i + 1}
	case 1:
		return &resB{}
	case 2:
		return &resC{}
	case 3:
		return &resD{S: "x"}
	}
	return reflect.New(r.types[i]).Interface()
}

func (r *resWorld) add(i, style int, v any) {
	if i < nStaticRes {
		switch style % 3 {
		case 1:
			switch i {
			case 0:
				r.a.Add(v.(*resA))
			case 1:
				r.b.Add(v.(*resB))
			case 2:
				r.c.Add(v.(*resC))
			default:
				r.d.Add(v.(*resD))
			}
			return
		case 2:
			switch i {
			case 0:
				ecs.AddResource(r.w, v.(*resA))
			case 1:
				ecs.AddResource(r.w, v.(*resB))
			case 2:
				ecs.AddResource(r.w, v.(*resC))
			default:
				ecs.AddResource(r.w, v.(*resD))
			}
			return
		}
	}
	r.w.Resources().Add(r.ids[i], v)
}

func (r *resWorld) remove(i, style int) {
	if i < nStaticRes && style%3 == 1 {
		switch i {
		case 0:
			r.a.Remove()
		case 1:
			r.b.Remove()
		case 2:
			r.c.Remove()
		default:
			r.d.Remove()
		}
		return
	}
	r.w.Resources().Remove(r.ids[i])
}

// check compares every registered resource with the model: always through Resources, and - only
// when viaMappers is set - through the long-lived generic.Resource mappers and GetResource. How
// often the mappers are asked is part of the generated history: a mapper that is asked after every
// single step can never be caught with a stale value.
func (r *resWorld) check(viaMappers bool) string {
	res := r.w.Resources()
	for i := range r.types {
		if r.types[i] == nil {
			continue
		}
		has := res.Has(r.ids[i])
		if has != r.present[i] {
			return r.fail("Resources.Has(resource %d)=%v, model says %v", i, has, r.present[i])
		}
		var got any
		if p := core.Call(func() { got = res.Get(r.ids[i]) }); p != nil {
			return r.fail("Resources.Get(resource %d) panicked: %v", i, p)
		}
		if r.present[i] {
			if got != r.ptr[i] {
				return r.fail("Resources.Get(resource %d) is not the pointer that was added", i)
			}
		} else if got != nil {
			return r.fail("Resources.Get(resource %d) is %v, want nil for an absent resource", i, got)
		}
		if i >= nStaticRes || !viaMappers {
			continue
		}
		// generic.Resource and GetResource
		var g1, g2 any
		var h bool
		var nil1, nil2 bool
		p := core.Call(func() {
			switch i {
			case 0:
				x, y := r.a.Get(), ecs.GetResource[resA](r.w)
				g1, g2, h, nil1, nil2 = x, y, r.a.Has(), x == nil, y == nil
			case 1:
				x, y := r.b.Get(), ecs.GetResource[resB](r.w)
				g1, g2, h, nil1, nil2 = x, y, r.b.Has(), x == nil, y == nil
			case 2:
				x, y := r.c.Get(), ecs.GetResource[resC](r.w)
				g1, g2, h, nil1, nil2 = x, y, r.c.Has(), x == nil, y == nil
			default:
				x, y := r.d.Get(), ecs.GetResource[resD](r.w)
				g1, g2, h, nil1, nil2 = x, y, r.d.Has(), x == nil, y == nil
			}
		})
		if p != nil {
			return r.fail("generic.Resource.Get / GetResource of resource %d (present=%v) panicked: %v", i, r.present[i], p)
		}
		if h != r.present[i] {
			return r.fail("generic.Resource.Has(resource %d)=%v, model says %v", i, h, r.present[i])
		}
		if r.present[i] {
			if g1 != r.ptr[i] || g2 != r.ptr[i] {
				return r.fail("generic.Resource.Get / GetResource of resource %d is not the pointer that was added", i)
			}
		} else if !nil1 || !nil2 {
			return r.fail("generic.Resource.Get / GetResource of absent resource %d is not nil", i)
		}
	}
	return ""
}

func (r *resWorld) apply(op resOp) string {
	i := op.I
	switch op.K {
	case "regres":
		return r.register(i)
	case "add", "illadd":
		if msg := r.register(i); msg != "" {
			return msg
		}
		v := r.newValue(i, op.S == 7)
		p := core.Call(func() { r.add(i, op.S, v) })
		if r.present[i] {
			if p == nil {
				return r.fail("adding resource %d which is present did not panic", i)
			}
			return ""
		}
		if p != nil {
			return r.fail("adding absent resource %d panicked: %v", i, p)
		}
		r.present[i], r.ptr[i] = true, v
	case "rem", "illrem":
		if msg := r.register(i); msg != "" {
			return msg
		}
		p := core.Call(func() { r.remove(i, op.S) })
		if !r.present[i] {
			if p == nil {
				return r.fail("removing resource %d which is absent did not panic", i)
			}
			return ""
		}
		if p != nil {
			return r.fail("removing present resource %d panicked: %v", i, p)
		}
		r.present[i], r.ptr[i] = false, nil
	case "replace":
		// Remove and Add of a new value in one step, through generated access styles
		if msg := r.register(i); msg != "" {
			return msg
		}
		if !r.present[i] {
			return ""
		}
		v := r.newValue(i, op.S == 7)
		if p := core.Call(func() { r.remove(i, op.S); r.add(i, op.S/3, v) }); p != nil {
			return r.fail("replacing resource %d panicked: %v", i, p)
		}
		r.ptr[i] = v
	case "regall":
		// every resource type of the case gets registered (with ndyn = limit-4 the registry is full)
		for j := range r.types {
			if msg := r.register(j); msg != "" {
				return msg
			}
		}
	case "addall":
		// every resource of the case present at the same time (with ndyn = limit-4: all 256)
		for j := range r.types {
			if msg := r.register(j); msg != "" {
				return msg
			}
			if r.present[j] {
				continue
			}
			v := r.newValue(j, false)
			if p := core.Call(func() { r.add(j, 0, v) }); p != nil {
				return r.fail("adding absent resource %d panicked: %v", j, p)
			}
			r.present[j], r.ptr[j] = true, v
		}
	case "lockedreset":
		// Reset on a locked world is refused and changes nothing - the resources are still there
		if len(r.queries) == 0 {
			return ""
		}
		if p := core.Call(func() { r.w.Reset() }); p == nil {
			return "Reset on a locked world did not panic"
		}
		if !r.w.IsLocked() {
			return "a refused Reset released the world lock"
		}
	case "regcomp":
		if len(ecs.ComponentIDs(r.w)) < ecs.MaskTotalBits && len(r.queries) == 0 {
			ecs.TypeID(r.w, core.FillerType(r.compN))
			r.compN++
		}
	case "ent":
		if len(r.queries) > 0 {
			return ""
		}
		if len(r.ents) > 0 && op.I%3 == 0 {
			e := r.ents[len(r.ents)-1]
			r.ents = r.ents[:len(r.ents)-1]
			r.w.RemoveEntity(e)
		} else if r.compN > 0 {
			r.ents = append(r.ents, r.w.NewEntity(core.RawIDs()[op.I%r.compN]))
		} else {
			r.ents = append(r.ents, r.w.NewEntity())
		}
	case "lock":
		if len(r.queries) < 5 {
			r.queries = append(r.queries, r.w.Query(ecs.All()))
		}
	case "unlock":
		if n := len(r.queries); n > 0 {
			r.queries[n-1].Close()
			r.queries = r.queries[:n-1]
		}
	case "reset":
		for n := len(r.queries); n > 0; n-- {
			r.queries[n-1].Close()
		}
		r.queries = nil
		r.w.Reset()
		r.ents = nil
		for k := range r.present {
			r.present[k], r.ptr[k] = false, nil
		}
		// resource types stay registered under their IDs (asked by ID before any by-type lookup)
		if got := len(ecs.ResourceIDs(r.w)); got != r.nReg {
			return r.fail("after Reset ResourceIDs lists %d resource types, %d were registered", got, r.nReg)
		}
		for i := len(r.types) - 1; i >= 0; i-- {
			if r.types[i] == nil {
				continue
			}
			if tp, ok := ecs.ResourceType(r.w, r.ids[i]); !ok || tp != r.types[i] {
				return r.fail("after Reset ResourceType(%v) = %v,%v, registered type %v", r.ids[i], tp, ok, r.types[i])
			}
			if id := ecs.ResourceTypeID(r.w, r.types[i]); id != r.ids[i] {
				return r.fail("after Reset ResourceTypeID(%v) = %v, it was registered as %v", r.types[i], id, r.ids[i])
			}
		}
	}
	return ""
}

func newResWorld(ndyn int) *resWorld {
	w := ecs.NewWorld()
	n := nStaticRes + ndyn
	return &resWorld{w: &w, ids: make([]ecs.ResID, n), types: make([]reflect.Type, n), present: make([]bool, n), ptr: make([]any, n)}
}

func runResCase(c *resReplay) string {
	r := newResWorld(c.NDyn)
	for _, i := range c.Order {
		var msg string
		if p := core.Call(func() { msg = r.register(i) }); p != nil {
			return fmt.Sprintf("registering resource type %d panicked: %v", i, p)
		}
		if msg != "" {
			return msg
		}
	}
	for k, op := range c.Ops {
		var msg string
		if p := core.Call(func() { msg = r.apply(op) }); p != nil {
			// e.g. the first use of a resource type while a query is open: resources do not care
			// about the world lock
			return fmt.Sprintf("op %d %+v (world locked: %v) panicked: %v", k, op, len(r.queries) > 0, p)
		}
		if msg != "" {
			return fmt.Sprintf("op %d %+v: %s", k, op, msg)
		}
		if msg := r.check(op.K == "get"); msg != "" {
			return fmt.Sprintf("after op %d %+v: %s", k, op, msg)
		}
	}
	if msg := r.check(true); msg != "" {
		return "at the end: " + msg
	}
	return ""
}

// runResProp runs the generated resource histories under a property's name; owns (nil: everything)
// selects the mismatches that belong to it, any other mismatch ends the case quietly.
func runResProp(t *testing.T, id, test, rule string, owns func(msg string) bool) {
	withStats(t, id, func(st *core.Stats) {
		st.Rule = rule
		mine := func(msg string) bool { return owns == nil || owns(msg) }
		limit := ecs.MaskTotalBits
		if path, ok := replaying(); ok {
			var r resReplay
			if err := core.ReadReplay(path, &r); err != nil {
				t.Fatalf("cannot read replay: %v", err)
			}
			if msg := runResCase(&r); msg != "" && mine(msg) {
				t.Fatalf("%s violated: %s", id, msg)
			}
			return
		}
		rapid.Check(t, func(rt *rapid.T) {
			c := &resReplay{Property: id, Test: test, Build: core.BuildName()}
			c.NDyn = rapid.SampledFrom([]int{0, 1, 2, 3, 5, 8, 20, limit - nStaticRes}).Draw(rt, "ndyn")
			n := nStaticRes + c.NDyn
			npre := rapid.IntRange(0, min(n, 6)).Draw(rt, "npre")
			c.Order = rapid.Permutation(seqInts(n)).Draw(rt, "order")[:npre]
			nops := rapid.IntRange(1, 40).Draw(rt, "nops")
			kinds := []string{"add", "add", "add", "rem", "rem", "illadd", "illrem", "regres", "regcomp", "ent", "ent", "lock", "unlock", "reset", "get", "get", "get", "replace", "replace", "regall", "addall", "lockedreset", "lockedreset"}
			present := map[int]bool{}
			maxPresent, removals, lockOrReset := 0, 0, false
			for i := 0; i < nops; i++ {
				op := resOp{K: rapid.SampledFrom(kinds).Draw(rt, "k"), S: rapid.IntRange(0, 8).Draw(rt, "style")}
				// bias to the static types and to a few dynamic ones so that states repeat
				if rapid.Bool().Draw(rt, "static") || c.NDyn == 0 {
					op.I = rapid.IntRange(0, nStaticRes-1).Draw(rt, "i")
				} else if rapid.Bool().Draw(rt, "lowdyn") {
					op.I = nStaticRes + rapid.IntRange(0, min(c.NDyn-1, 3)).Draw(rt, "i")
				} else {
					op.I = nStaticRes + rapid.IntRange(0, c.NDyn-1).Draw(rt, "i")
				}
				// turn add/rem into their legal/illegal twins according to the tracked state
				switch op.K {
				case "add":
					if present[op.I] {
						op.K = "rem"
					}
				case "rem":
					if !present[op.I] {
						op.K = "add"
					}
				case "illadd":
					if !present[op.I] {
						op.K = "illrem"
					}
				case "illrem":
					if present[op.I] {
						op.K = "illadd"
					}
				}
				switch op.K {
				case "add":
					present[op.I] = true
				case "rem":
					delete(present, op.I)
					removals++
				case "reset":
					present = map[int]bool{}
					lockOrReset = true
				case "lock":
					lockOrReset = true
				case "addall":
					for j := 0; j < n; j++ {
						present[j] = true
					}
				}
				if len(present) > maxPresent {
					maxPresent = len(present)
				}
				c.Ops = append(c.Ops, op)
			}
			cs := st.Begin()
			defer cs.End()
			for _, op := range c.Ops {
				cs.Feed(fmt.Sprintf("%s/%d/%d", op.K, op.I, op.S))
				cs.Label("op:" + op.K)
			}
			cs.FeedInt(uint64(c.NDyn))
			if maxPresent >= 3 && removals >= 1 && lockOrReset {
				cs.NonTrivial()
			}
			if c.NDyn >= 20 {
				cs.Label("many resource types")
			}
			cs.Sample(func() any { return c })
			if msg := runResCase(c); msg != "" {
				if !mine(msg) {
					st.Count("unowned mismatch (case ended)", 1)
					return
				}
				c.Message = msg
				core.WriteFail(c)
				rt.Fatalf("%s violated: %s", id, msg)
			}
		})
	})
}

func TestC20(t *testing.T) {
	runResProp(t, "C20", "TestC20", "sequences of Add/Remove/Get/Has over 4 static resource types (through Resources, generic.Resource and AddResource/GetResource) and up to MaskTotalBits-4 dynamic ones, registered in a generated order (now and then all at once: a completely full registry; now and then all resources present at once; Reset attempted on a locked world: refused, nothing changes) interleaved with component-type registrations, entity creation/removal, open queries (world lock) and Reset, with illegal Add-present / Remove-absent injected; after every op every registered resource type is read through Resources, and at generated steps (and at the end) through the long-lived generic.Resource mappers and GetResource as well (a mapper asked after every step could never be caught with a stale value); Remove+Add of a new pointer in one step is an op of its own: Has == model, Get == the exact pointer passed to Add (nil when absent), resource IDs dense in their own registry and stable; non-trivial = >= 3 resource types present at some point with a removal in between and a lock or Reset in the history", nil)
}

// TestC18Resource is the resource part of C18: generic.Resource[T] (long-lived mappers) and
// GetResource[T] must answer exactly like the ID-based Resources calls on the same world, whatever
// access path changed the resource in between. Only disagreements of the generic accessors are owned;
// the resource map itself is C20's business.
func TestC18Resource(t *testing.T) {
	runResProp(t, "C18", "TestC18Resource",
		"resource part: the generated resource histories of C20 (Add/Remove/replace through Resources, generic.Resource and AddResource, registrations, locks, Reset; mappers are read at generated steps only); owned oracle: whenever the ID-based Has/Get of a resource agree with the model, generic.Resource.Has/Get and GetResource must give the same answer and the identical pointer",
		func(msg string) bool { return strings.Contains(msg, "generic.Resource.") })
}

func seqInts(n int) []int {
	s := make([]int, n)
	for i := range s {
		s[i] = i
	}
	return s
}
