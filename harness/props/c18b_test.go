package props

import (
	"fmt"
	"reflect"
	"sort"
	"strings"
	"testing"

	"verifharness/core"

	"github.com/mlange-42/arche/ecs"
	"github.com/mlange-42/arche/generic"
	"pgregory.net/rapid"
)

// applyMap1: generic.Map[T] for one static type (Ty[0]).
func (g *gWorld) applyMap1(op *gOp, ent *gEnt, targetOK func(int) bool) string {
	if ent == nil || !ent.alive || len(op.Ty) == 0 {
		return ""
	}
	t := op.Ty[0] % nST
	id := g.ids[t]
	has := ent.comps[t]
	// a typed mapper per static type
	switch op.N % 4 {
	case 0: // Get / Has / GetUnchecked / HasUnchecked
		p, pu, h, hu := map1Get(g.Wg, t, ent.h)
		if p != g.Wg.Get(ent.h, id) || pu != g.Wg.Get(ent.h, id) {
			return fmt.Sprintf("Map[%v].Get is not World.Get", allStaticTypes[t])
		}
		if h != has || hu != has {
			return fmt.Sprintf("Map[%v].Has=%v/%v, entity has it: %v", allStaticTypes[t], h, hu, has)
		}
	case 1: // Set
		if !has {
			return ""
		}
		ptrs, comps := g.values([]int{t}, op.Tok)
		ret := map1Set(g.Wg, t, ent.h, ptrs[0])
		g.Wc.Set(ent.h, id, comps[0].Comp)
		if ret != g.Wg.Get(ent.h, id) {
			return fmt.Sprintf("Map[%v].Set did not return the pointer to the stored component", allStaticTypes[t])
		}
	case 2: // relation target
		if !isRelType(t) || !has || !targetOK(op.T) || op.T == -2 {
			return ""
		}
		if t == tGR0 {
			m := generic.NewMap[GR0](g.Wg)
			m.SetRelation(ent.h, g.handle(op.T))
			if m.GetRelation(ent.h) != g.handle(op.T) || m.GetRelationUnchecked(ent.h) != g.handle(op.T) {
				return "Map[GR0].GetRelation does not return the target just set"
			}
		} else {
			m := generic.NewMap[GR1](g.Wg)
			m.SetRelation(ent.h, g.handle(op.T))
			if m.GetRelation(ent.h) != g.handle(op.T) || m.GetRelationUnchecked(ent.h) != g.handle(op.T) {
				return "Map[GR1].GetRelation does not return the target just set"
			}
		}
		g.Wc.Relations().Set(ent.h, id, g.handle(op.T))
		ent.target = op.T
		g.label("Map.SetRelation")
	case 3: // SetRelationBatch(Q) over all entities with that relation type
		if !isRelType(t) || !targetOK(op.T) || op.T == -2 {
			return ""
		}
		fg, fc := ecs.All(id), ecs.All(id)
		var cg int
		if t == tGR0 {
			m := generic.NewMap[GR0](g.Wg)
			if op.Q {
				q := m.SetRelationBatchQ(fg, g.handle(op.T))
				cg = q.Count()
				for q.Next() {
					if q.Get() != (*GR0)(g.Wg.Get(q.Entity(), id)) {
						q.Close()
						return "Map[GR0].SetRelationBatchQ: Get() is not the entity's component"
					}
					if q.Relation() != g.handle(op.T) {
						q.Close()
						return "Map[GR0].SetRelationBatchQ: Relation() is not the new target"
					}
				}
			} else {
				cg = m.SetRelationBatch(fg, g.handle(op.T))
			}
		} else {
			m := generic.NewMap[GR1](g.Wg)
			if op.Q {
				q := m.SetRelationBatchQ(fg, g.handle(op.T))
				cg = q.Count()
				for q.Next() {
					if q.Relation() != g.handle(op.T) {
						q.Close()
						return "Map[GR1].SetRelationBatchQ: Relation() is not the new target"
					}
				}
			} else {
				cg = m.SetRelationBatch(fg, g.handle(op.T))
			}
		}
		var cc int
		if op.Q {
			q := g.Wc.Batch().SetRelationQ(fc, id, g.handle(op.T))
			cc = q.Count()
			q.Close()
		} else {
			cc = g.Wc.Batch().SetRelation(fc, id, g.handle(op.T))
		}
		if cg != cc {
			return fmt.Sprintf("Map.SetRelationBatch(Q=%v) reports %d, Batch.SetRelation %d", op.Q, cg, cc)
		}
		for _, e := range g.ents {
			if e.alive && e.comps[t] {
				e.target = op.T
			}
		}
	}
	return ""
}

// applyExchange: generic.Exchange with Adds(Ty) Removes(Ty2) [WithRelation].
func (g *gWorld) applyExchange(op *gOp, ent *gEnt, targetOK func(int) bool) string {
	add, rem := op.Ty, op.Ty2
	relAdd := relIn(add)
	addC, remC := compsOf(add), compsOf(rem)
	// one long-lived Exchange helper per world, re-configured for every use: Adds and Removes SET
	// the lists (an empty call clears them)
	if g.exch == nil {
		g.exch = generic.NewExchange(g.Wg)
	}
	ex := g.exch.Adds(addC...).Removes(remC...)
	scribbleComps(addC) // the argument slices are the caller's: it may reuse them at once
	scribbleComps(remC)
	addIDs, remIDs := g.mapIDs(add), g.mapIDs(rem)
	switch op.N % 5 {
	case 0: // NewEntity
		t := op.T
		if relAdd < 0 || !targetOK(t) {
			t = -2
		}
		var hg, hc ecs.Entity
		if t != -2 {
			g.exchWithRelation(ex, relAdd)
			hg = ex.NewEntity(g.handle(t))
			hc = ecs.NewBuilder(g.Wc, addIDs...).WithRelation(g.ids[relAdd]).New(g.handle(t))
		} else {
			hg = ex.NewEntity()
			hc = g.Wc.NewEntity(addIDs...)
		}
		tt := -1
		if t >= 0 {
			tt = t
		}
		return g.bind([]ecs.Entity{hg}, []ecs.Entity{hc}, add, tt)
	case 1: // Add
		if ent == nil || !ent.alive || len(add) == 0 || !g.entHasNone(ent, add) || (relAdd >= 0 && g.relOf(ent) >= 0) {
			return ""
		}
		t := op.T
		if relAdd < 0 || !targetOK(t) {
			t = -2
		}
		if t != -2 {
			g.exchWithRelation(ex, relAdd)
			ex.Add(ent.h, g.handle(t))
			g.Wc.Relations().Exchange(ent.h, addIDs, nil, g.ids[relAdd], g.handle(t))
			if t >= 0 {
				ent.target = t
			}
		} else {
			ex.Add(ent.h)
			g.Wc.Add(ent.h, addIDs...)
		}
		for _, c := range add {
			ent.comps[c] = true
		}
	case 2: // Remove
		if ent == nil || !ent.alive || len(rem) == 0 || !g.entHasAll(ent, rem) {
			return ""
		}
		if keep := g.relOf(ent); keep >= 0 && relIn(rem) != keep && op.T != -2 && targetOK(op.T) {
			// with a target for the relation component the entity keeps: one call (one event) that
			// removes the components and re-targets
			g.exchWithRelation(ex, keep)
			ex.Remove(ent.h, g.handle(op.T))
			g.Wc.Relations().Exchange(ent.h, nil, remIDs, g.ids[keep], g.handle(op.T))
			ent.target = -1
			if op.T >= 0 {
				ent.target = op.T
			}
			g.label("Exchange.Remove with a target")
		} else {
			ex.Remove(ent.h)
			g.Wc.Remove(ent.h, remIDs...)
		}
		for _, c := range rem {
			delete(ent.comps, c)
			if isRelType(c) {
				ent.target = -1
			}
		}
	case 3: // Exchange
		if ent == nil || !ent.alive || (len(add) == 0 && len(rem) == 0) || !g.entHasNone(ent, add) || !g.entHasAll(ent, rem) {
			return ""
		}
		relAfter := g.relOf(ent)
		if relAfter >= 0 && relIn(rem) == relAfter {
			relAfter = -1
		}
		if relAdd >= 0 {
			if relAfter >= 0 {
				return ""
			}
			relAfter = relAdd
		}
		t := op.T
		if relAfter < 0 || !targetOK(t) {
			t = -2
		}
		if t != -2 {
			g.exchWithRelation(ex, relAfter)
			ex.Exchange(ent.h, g.handle(t))
			g.Wc.Relations().Exchange(ent.h, addIDs, remIDs, g.ids[relAfter], g.handle(t))
			ent.target = -1
			if t >= 0 {
				ent.target = t
			}
		} else {
			ex.Exchange(ent.h)
			g.Wc.Exchange(ent.h, addIDs, remIDs)
			if relIn(rem) >= 0 || relAdd >= 0 {
				ent.target = -1
			}
		}
		for _, c := range rem {
			delete(ent.comps, c)
		}
		for _, c := range add {
			ent.comps[c] = true
		}
		g.label("Exchange.Exchange")
	case 4: // ExchangeBatch over All(rem).Without(add, relations if a relation is added)
		if len(add) == 0 && len(rem) == 0 {
			return ""
		}
		exc := append([]int{}, add...)
		if relAdd >= 0 {
			for _, r := range []int{tGR0, tGR1} {
				if relIn(rem) != r {
					exc = append(exc, r)
				}
			}
		}
		for _, a := range rem {
			for _, x := range exc {
				if a == x {
					return ""
				}
			}
		}
		fg := ecs.All(remIDs...).Without(g.mapIDs(exc)...)
		fc := ecs.All(remIDs...).Without(g.mapIDs(exc)...)
		withT := relAdd >= 0 && op.T != -2 && targetOK(op.T)
		var cg, cc int
		if withT {
			// with a target for the relation component that is added
			g.exchWithRelation(ex, relAdd)
			cg = ex.ExchangeBatch(&fg, g.handle(op.T))
			cc = g.Wc.Relations().ExchangeBatch(&fc, addIDs, remIDs, g.ids[relAdd], g.handle(op.T))
			g.label("Exchange.ExchangeBatch with a target")
		} else {
			cg = ex.ExchangeBatch(&fg)
			cc = g.Wc.Batch().Exchange(&fc, addIDs, remIDs)
		}
		if cg != cc {
			return fmt.Sprintf("Exchange.ExchangeBatch (with target: %v) reports %d, its ID-based equivalent %d", withT, cg, cc)
		}
		for _, e := range g.ents {
			if !e.alive || !g.entHasAll(e, rem) || !g.entHasNone(e, exc) {
				continue
			}
			for _, c := range rem {
				delete(e.comps, c)
			}
			for _, c := range add {
				e.comps[c] = true
			}
			if relIn(rem) >= 0 || relAdd >= 0 {
				e.target = -1
			}
			if withT && op.T >= 0 {
				e.target = op.T
			}
		}
	}
	return ""
}

// builder state of a generic filter, as the documentation describes its meaning
type fState struct {
	declared   []int
	optional   map[int]bool
	with       []int
	without    []int
	exclusive  bool
	relType    int // -1 none
	fixed      bool
	fixedT     int
	registered bool
}

// coreFilter builds the equivalent ID-based filter of the current builder state.
func (g *gWorld) coreFilter(st *fState, callTarget int, hasCall bool) ecs.Filter {
	inc := []ecs.ID{}
	for _, t := range st.declared {
		if !st.optional[t] {
			inc = append(inc, g.ids[t])
		}
	}
	for _, t := range st.with {
		if !st.optional[t] {
			inc = append(inc, g.ids[t])
		}
	}
	mask := ecs.All(inc...)
	var mf ecs.MaskFilter
	if st.exclusive {
		mf = mask.Exclusive()
	} else {
		mf = mask.Without(g.mapIDs(st.without)...)
	}
	if st.relType >= 0 && (st.fixed || hasCall) {
		t := st.fixedT
		if hasCall {
			t = callTarget
		}
		rf := ecs.NewRelationFilter(&mf, g.handle(t))
		return &rf
	}
	return &mf
}

func entitySet(q *ecs.Query) []ecs.Entity {
	out := []ecs.Entity{}
	for q.Next() {
		out = append(out, q.Entity())
	}
	sort.Slice(out, func(i, j int) bool {
		if out[i].ID() != out[j].ID() {
			return out[i].ID() < out[j].ID()
		}
		return out[i].Generation() < out[j].Generation()
	})
	return out
}

// applyFilter runs a builder script on a generic filter of adapter ad.
func (g *gWorld) applyFilter(op *gOp, ad *gAdapter, targetOK func(int) bool) string {
	f := ad.NewFilter()
	st := &fState{declared: ad.Types, optional: map[int]bool{}, relType: -1}
	queriesBuilt := 0
	name := fmt.Sprintf("Filter%d(%s)", ad.N, ad.Name)
	included := func(t int) bool {
		for _, d := range st.declared {
			if d == t && !st.optional[t] {
				return true
			}
		}
		for _, d := range st.with {
			if d == t && !st.optional[t] {
				return true
			}
		}
		return false
	}
	defer func() {
		if st.registered {
			f.Unregister(g.Wg)
		}
	}()
	// runs one query and compares with the core filter; the query is exhausted
	check := func(q gQuery, flt ecs.Filter, what string) string {
		if _, ok := flt.(*ecs.RelationFilter); ok {
			what += " [relation filter with a target]"
			g.label("generic relation filter with a target queried")
			g.relQueries++
		}
		want := func() []ecs.Entity { qq := g.Wg.Query(flt); return entitySet(&qq) }()
		if c := q.Base().Count(); c != len(want) {
			q.Base().Close()
			return fmt.Sprintf("%s: %s counts %d entities, the equivalent core filter selects %d (builder: %s)", name, what, c, len(want), st.describe())
		}
		got := []ecs.Entity{}
		for q.Base().Next() {
			got = append(got, q.Base().Entity())
			if msg := g.checkQueryGet(ad, q, name+" "+what); msg != "" {
				q.Base().Close()
				return msg
			}
			if st.relType >= 0 {
				if rt := q.Relation(); rt != g.Wg.Relations().Get(q.Base().Entity(), g.ids[st.relType]) {
					q.Base().Close()
					return fmt.Sprintf("%s: %s: Relation() = %v differs from Relations.Get", name, what, rt)
				}
			}
			for i, t := range ad.Types {
				if st.optional[t] && q.Get()[i] == nil {
					g.nontri = true
					g.label("optional component absent on a visited entity")
				}
			}
		}
		sort.Slice(got, func(i, j int) bool { return got[i].ID() < got[j].ID() })
		if fmt.Sprint(got) != fmt.Sprint(want) {
			return fmt.Sprintf("%s: %s selects %v, the equivalent core filter selects %v (builder: %s)", name, what, got, want, st.describe())
		}
		return ""
	}
	for _, s := range op.Script {
		switch s.K {
		case "optional":
			if st.registered || ad.N == 0 {
				continue
			}
			ts := []int{}
			for _, t := range s.T {
				t = ad.Types[t%len(ad.Types)]
				if t == st.relType {
					continue // the relation component must stay in the filter
				}
				ts = append(ts, t)
			}
			cs := compsOf(ts)
			f.Optional(cs...)
			scribbleComps(cs)
			for _, t := range ts {
				st.optional[t] = true
			}
		case "with":
			if st.registered {
				continue
			}
			ts := []int{}
			for _, t := range s.T {
				ts = append(ts, tGX0+t%3)
			}
			cs := compsOf(ts)
			f.With(cs...)
			scribbleComps(cs)
			st.with = append(st.with, ts...)
		case "without":
			if st.registered || st.exclusive {
				continue
			}
			ts := []int{}
			for _, t := range s.T {
				t = t % nST
				if included(t) || t == st.relType {
					continue
				}
				ts = append(ts, t)
			}
			cs := compsOf(ts)
			f.Without(cs...)
			scribbleComps(cs)
			st.without = append(st.without, ts...)
		case "withrel":
			if st.registered || st.relType >= 0 {
				continue
			}
			has := false
			for _, t := range st.with {
				has = has || isRelType(t)
			}
			if has || ad.HasRel {
				continue
			}
			rt := tGR0 + s.T[0]%2
			cs := compsOf([]int{rt})
			f.With(cs...)
			scribbleComps(cs)
			st.with = append(st.with, rt)
			g.label("relation component added through With")
		case "exclusive":
			if st.registered || len(st.without) > 0 {
				continue
			}
			f.Exclusive()
			st.exclusive = true
		case "relation":
			if st.registered {
				continue
			}
			rt := st.relType
			if rt < 0 {
				for _, t := range ad.Types {
					if isRelType(t) && !st.optional[t] {
						rt = t
					}
				}
				for _, t := range st.with {
					if isRelType(t) {
						rt = t
					}
				}
			}
			if rt < 0 {
				continue
			}
			// WithRelation may be called again on a filter that was already configured and used:
			// a new fixed target replaces the previous configuration (a filter object reused for
			// one parent after the other)
			again := st.relType >= 0
			if len(s.T) > 0 && (s.T[0]%3 == 0 || (st.fixed && s.T[0]%3 == 1)) && s.E != -2 && targetOK(s.E) {
				f.WithRelation(allStaticTypes[rt], g.handle(s.E))
				if again && queriesBuilt > 0 && (!st.fixed || st.fixedT != s.E) {
					g.label("WithRelation called again with another fixed target after a query")
				}
				st.fixed, st.fixedT = true, s.E
			} else if !st.fixed {
				// (without a target after a fixed one: "set permanently" - not generated)
				f.WithRelation(allStaticTypes[rt])
			}
			st.relType = rt
		case "late":
			// a component type the world has not seen yet is registered NOW (after the filter may have
			// been compiled or registered) and given to an entity the filter's include list matches
			if msg := g.lateStep(s, included); msg != "" {
				return msg
			}
		case "register":
			if st.registered {
				continue
			}
			f.Register(g.Wg)
			st.registered = true
			g.label("generic filter registered")
		case "unregister":
			if !st.registered {
				continue
			}
			f.Unregister(g.Wg)
			st.registered = false
		case "query":
			hasCall := st.relType >= 0 && !st.fixed && !st.registered && s.E != -2 && targetOK(s.E)
			var q gQuery
			if hasCall {
				q = f.Query(g.Wg, g.handle(s.E))
			} else {
				q = f.Query(g.Wg)
			}
			if msg := check(q, g.coreFilter(st, s.E, hasCall), fmt.Sprintf("query %d", queriesBuilt)); msg != "" {
				return msg
			}
			if len(s.T) > 0 && s.T[0]%3 == 0 {
				// FilterN.Filter hands out the ecs.Filter the query is built from: used with World.Query
				// directly it selects the same entities
				var ef ecs.Filter
				if hasCall {
					ef = f.Filter(g.Wg, g.handle(s.E))
				} else {
					ef = f.Filter(g.Wg)
				}
				got := func() []ecs.Entity { qq := g.Wg.Query(ef); return entitySet(&qq) }()
				want := func() []ecs.Entity { qq := g.Wg.Query(g.coreFilter(st, s.E, hasCall)); return entitySet(&qq) }()
				if fmt.Sprint(got) != fmt.Sprint(want) {
					return fmt.Sprintf("%s: the filter returned by Filter(call-time target: %v) selects %v, the equivalent core filter %v (builder: %s)", name, hasCall, got, want, st.describe())
				}
				g.label("FilterN.Filter used with World.Query")
			}
			if queriesBuilt > 0 {
				g.nontri = true
				g.label("builder modified/used after an earlier query")
			}
			queriesBuilt++
		case "two":
			// two queries from one filter open at the same time, with different call-time targets
			if st.relType < 0 || st.fixed || st.registered || !targetOK(s.E) || !targetOK(s.F) || s.E == -2 || s.F == -2 {
				continue
			}
			q1 := f.Query(g.Wg, g.handle(s.E))
			flt1 := g.coreFilter(st, s.E, true)
			q2 := f.Query(g.Wg, g.handle(s.F))
			flt2 := g.coreFilter(st, s.F, true)
			if msg := check(q2, flt2, "second of two open queries"); msg != "" {
				q1.Base().Close()
				return msg
			}
			if msg := check(q1, flt1, "first of two open queries (built before the second)"); msg != "" {
				return msg
			}
			g.nontri = true
			g.label("two open queries with different targets")
			queriesBuilt += 2
		}
	}
	return ""
}

func (st *fState) describe() string {
	opt := []int{}
	for t := range st.optional {
		opt = append(opt, t)
	}
	sort.Ints(opt)
	return fmt.Sprintf("declared %v optional %v with %v without %v exclusive %v relation %d fixed-target %v registered %v", st.declared, opt, st.with, st.without, st.exclusive, st.relType, st.fixed, st.registered)
}

func runGenericCase(c *gReplay) (string, map[string]bool, bool) {
	msg, g := runGenericCaseW(c)
	return msg, g.labels, g.nontri
}

// runGenericCaseW is runGenericCase returning the worlds as well.
func runGenericCaseW(c *gReplay) (string, *gWorld) {
	g := newGWorld(c.Cap)
	if c.Listen {
		g.listen()
	}
	for k := range c.Ops {
		op := &c.Ops[k]
		var msg string
		if p := core.Call(func() { msg = g.apply(op) }); p != nil {
			return fmt.Sprintf("op %d %+v panicked: %v", k, *op, p), g
		}
		if msg != "" {
			return fmt.Sprintf("op %d %+v: %s", k, *op, msg), g
		}
		if msg := g.compare(); msg != "" {
			return fmt.Sprintf("after op %d %+v: %s", k, *op, msg), g
		}
	}
	return "", g
}

// pickEnt draws the index of an alive entity satisfying pred, or -1.
func (g *gWorld) pickEnt(rt *rapid.T, pred func(e *gEnt) bool) int {
	cands := []int{}
	for i, e := range g.ents {
		if e.alive && pred(e) {
			cands = append(cands, i)
		}
	}
	if len(cands) == 0 {
		return -1
	}
	return cands[rapid.IntRange(0, len(cands)-1).Draw(rt, "ent")]
}

// pickTargetIdx draws a target argument: none, zero, or an alive entity (biased to existing targets).
func (g *gWorld) pickTargetIdx(rt *rapid.T, allowNone bool) int {
	k := rapid.IntRange(0, 5).Draw(rt, "tkind")
	if k == 0 && allowNone {
		return -2
	}
	if k == 1 {
		return -1
	}
	if k <= 3 {
		if t := g.pickEnt(rt, func(e *gEnt) bool {
			for _, o := range g.ents {
				if o.alive && o.target >= 0 && g.ents[o.target] == e {
					return true
				}
			}
			return false
		}); t >= 0 {
			return t
		}
	}
	if t := g.pickEnt(rt, func(*gEnt) bool { return true }); t >= 0 {
		return t
	}
	return -1
}

// genGenericOp draws the next op from the current state of the lock-step worlds' bookkeeping.
func (g *gWorld) genGenericOp(rt *rapid.T, focus int) gOp {
	kinds := []string{"mapNew", "mapNew", "mapNewWith", "mapNewBatch", "mapGet", "mapAdd", "mapAssign", "mapRemove",
		"mapAddBatch", "mapRemoveBatch", "mapRemoveEntities", "rm", "map1", "map1", "exchange", "exchange", "filter", "filter", "filter", "ill",
		"mapAddT", "mapRemoveT", "mapRemoveBatchT", "mapAddBatchT"}
	if g.illWeight > 0 {
		for i := 0; i < g.illWeight; i++ {
			kinds = append(kinds, "ill")
		}
	}
	op := gOp{K: rapid.SampledFrom(kinds).Draw(rt, "k"), T: -2}
	op.A = focus
	if rapid.IntRange(0, 2).Draw(rt, "other") == 0 {
		op.A = rapid.IntRange(0, len(gAdapters)-1).Draw(rt, "adapter")
	}
	ad := &gAdapters[op.A]
	if op.K == "ill" {
		op.N = rapid.IntRange(0, nIllClasses-1).Draw(rt, "illclass")
		op.E = rapid.IntRange(0, 50).Draw(rt, "illent")
		return op
	}
	if ad.NewMap == nil && op.K != "rm" && op.K != "map1" && op.K != "exchange" {
		op.K = "filter"
	}
	op.N = rapid.IntRange(0, 9).Draw(rt, "n")
	op.Tok = rapid.Uint32Range(1, 1<<20).Draw(rt, "tok")
	op.Q = rapid.Bool().Draw(rt, "q")
	op.X = rapid.IntRange(0, 3).Draw(rt, "x") == 0
	alive := func(*gEnt) bool { return true }
	switch op.K {
	case "mapNew", "mapNewWith", "mapNewBatch":
		if ad.HasRel {
			op.T = g.pickTargetIdx(rt, true)
		}
	case "mapGet":
		op.E = g.pickEnt(rt, alive)
	case "mapAdd", "mapAssign":
		op.E = g.pickEnt(rt, func(e *gEnt) bool { return g.entHasNone(e, ad.Types) && !(ad.HasRel && g.relOf(e) >= 0) })
		if op.E < 0 {
			op.K, op.T = "mapNew", -2
		} else if ad.HasRel && op.K == "mapAdd" {
			op.T = g.pickTargetIdx(rt, true)
		}
	case "mapAddT", "mapRemoveT", "mapRemoveBatchT", "mapAddBatchT":
		if ad.HasRel || ad.N == 0 || ad.NewMap == nil {
			op.K, op.T = "mapNew", -2
			break
		}
		op.T = g.pickTargetIdx(rt, false)
		if op.K == "mapAddT" {
			op.E = g.pickEnt(rt, func(e *gEnt) bool { return e.comps[tGR0] && g.entHasNone(e, ad.Types) })
		} else if op.K == "mapRemoveT" {
			op.E = g.pickEnt(rt, func(e *gEnt) bool { return e.comps[tGR0] && g.entHasAll(e, ad.Types) })
		}
		if op.E < 0 {
			op.E = 0 // (apply creates a suitable entity when the drawn one is not)
		}
	case "mapRemove":
		op.E = g.pickEnt(rt, func(e *gEnt) bool { return g.entHasAll(e, ad.Types) })
		if op.E < 0 {
			op.K = "mapNew"
		}
	case "mapAddBatch", "mapRemoveBatch":
		perm := rapid.Permutation(seqInts(nST)).Draw(rt, "types")
		n1, n2 := rapid.IntRange(0, 1).Draw(rt, "ninc"), rapid.IntRange(0, 1).Draw(rt, "nexc")
		op.Ty, op.Ty2 = append([]int{}, perm[:n1]...), append([]int{}, perm[n1:n1+n2]...)
		if ad.HasRel && op.K == "mapAddBatch" {
			op.T = g.pickTargetIdx(rt, true)
		}
	case "rm":
		op.E = g.pickEnt(rt, alive)
	case "map1":
		op.N = rapid.IntRange(0, 3).Draw(rt, "map1op")
		op.Ty = []int{rapid.SampledFrom([]int{0, 1, 5, 11, tGR0, tGR0, tGR1, tGX0}).Draw(rt, "map1type")}
		switch op.N {
		case 1:
			op.E = g.pickEnt(rt, func(e *gEnt) bool { return e.comps[op.Ty[0]] })
		case 2:
			op.E = g.pickEnt(rt, func(e *gEnt) bool { return g.relOf(e) >= 0 })
			if op.E >= 0 {
				op.Ty = []int{g.relOf(g.ents[op.E])}
			}
			op.T = g.pickTargetIdx(rt, false)
		case 3:
			op.Ty = []int{rapid.SampledFrom([]int{tGR0, tGR0, tGR1}).Draw(rt, "reltype")}
			op.T = g.pickTargetIdx(rt, false)
		default:
			op.E = g.pickEnt(rt, alive)
		}
	case "exchange":
		op.N = rapid.IntRange(0, 4).Draw(rt, "exop")
		op.E = g.pickEnt(rt, alive)
		present, absent := []int{}, []int{}
		if op.E >= 0 {
			for t := 0; t < nST; t++ {
				if g.ents[op.E].comps[t] {
					present = append(present, t)
				} else {
					absent = append(absent, t)
				}
			}
		} else {
			absent = seqInts(nST)
		}
		if op.N == 0 || op.N == 4 {
			absent = seqInts(nST)
		}
		pa := rapid.Permutation(absent).Draw(rt, "adds")
		na := rapid.IntRange(0, 3).Draw(rt, "nadd")
		if na > len(pa) {
			na = len(pa)
		}
		seenRel := op.E >= 0 && g.relOf(g.ents[op.E]) >= 0
		for _, t := range pa[:na] {
			if isRelType(t) {
				if seenRel {
					continue
				}
				seenRel = true
			}
			op.Ty = append(op.Ty, t)
		}
		if len(present) > 0 && op.N >= 2 {
			pr := rapid.Permutation(present).Draw(rt, "rems")
			nr := rapid.IntRange(0, 2).Draw(rt, "nrem")
			if nr > len(pr) {
				nr = len(pr)
			}
			op.Ty2 = append(op.Ty2, pr[:nr]...)
		} else if op.N == 4 {
			op.Ty2 = []int{rapid.IntRange(0, nST-1).Draw(rt, "remtype")}
			for _, a := range op.Ty {
				if a == op.Ty2[0] {
					op.Ty2 = nil
					break
				}
			}
		}
		op.T = g.pickTargetIdx(rt, true)
	case "filter":
		ns := rapid.IntRange(1, 7).Draw(rt, "nscript")
		sk := []string{"optional", "with", "without", "exclusive", "exclusive", "query", "query", "query", "register", "unregister", "late"}
		if ad.HasRel {
			sk = append(sk, "relation", "relation", "relation", "relation", "two", "two", "two", "query", "query", "query")
		} else if rapid.IntRange(0, 2).Draw(rt, "withrel?") == 0 {
			// the relation component is not among the declared types (also arity 0): it comes in through
			// With, and WithRelation then names it
			sk = append(sk, "withrel", "withrel", "withrel", "relation", "relation", "relation", "two", "two", "query", "query")
		}
		for i := 0; i < ns; i++ {
			s := gStep{K: rapid.SampledFrom(sk).Draw(rt, "sk"), E: g.pickTargetIdx(rt, true), F: g.pickTargetIdx(rt, false)}
			nt := rapid.IntRange(1, 2).Draw(rt, "snt")
			for j := 0; j < nt; j++ {
				s.T = append(s.T, rapid.IntRange(0, nST-1).Draw(rt, "st"))
			}
			op.Script = append(op.Script, s)
		}
		op.Script = append(op.Script, gStep{K: "query", E: -2})
	}
	if op.E < 0 {
		op.E = 0
	}
	return op
}

// genericProp runs generated generic-vs-core histories under a property's name. owns decides
// whether a mismatch belongs to the property (nil: every mismatch does); a mismatch that does not
// ends the case quietly and is counted. relOnly restricts the focus adapters to those with a
// relation type.
type genericProp struct {
	ID, Test  string
	Rule      string
	Owns      func(msg string) bool
	RelOnly   bool
	NonTri    func(g *gWorld) bool
	IllWeight int // extra weight of illegal calls in the op mix
}

func runGenericProp(t *testing.T, gp *genericProp) {
	withStats(t, gp.ID, func(st *core.Stats) {
		st.Rule = gp.Rule
		owns := func(msg string) bool { return gp.Owns == nil || gp.Owns(msg) }
		if path, ok := replaying(); ok {
			var r gReplay
			if err := core.ReadReplay(path, &r); err != nil {
				t.Fatalf("cannot read replay: %v", err)
			}
			if msg, _, _ := runGenericCase(&r); msg != "" && owns(msg) {
				t.Fatalf("%s violated: %s", gp.ID, msg)
			}
			return
		}
		focusSet := []int{}
		for i, ad := range gAdapters {
			if !gp.RelOnly || ad.HasRel {
				focusSet = append(focusSet, i)
			}
		}
		caseNo := 0
		rapid.Check(t, func(rt *rapid.T) {
			c := &gReplay{Property: gp.ID, Test: gp.Test, Build: core.BuildName(), Cap: rapid.SampledFrom([]int{1, 2, 8, 128}).Draw(rt, "cap")}
			// every case focuses on one adapter (round-robin, so that all arities x variants are covered
			// in every run) and mixes in others; ops are drawn from the bookkeeping of the worlds
			focus := focusSet[caseNo%len(focusSet)]
			caseNo++
			cs := st.Begin()
			defer cs.End()
			cs.Label("focus adapter " + gAdapters[focus].Name)
			cs.Sample(func() any { return c })
			c.Listen = rapid.Bool().Draw(rt, "listen")
			g := newGWorld(c.Cap)
			if c.Listen {
				g.listen()
			}
			g.illWeight = gp.IllWeight
			aborted := false
			fail := func(msg string) {
				if !owns(msg) {
					// another property's business (C18 decides it): the case ends here
					if !aborted {
						st.Count("unowned mismatch (case ended)", 1)
					}
					aborted = true
					return
				}
				c.Message = msg
				core.WriteFail(c)
				rt.Fatalf("%s violated: %s", gp.ID, msg)
			}
			defer func() {
				for l := range g.labels {
					cs.Label(l)
				}
				if (gp.NonTri == nil && g.nontri) || (gp.NonTri != nil && gp.NonTri(g)) {
					cs.NonTrivial()
				}
			}()
			rt.Repeat(map[string]func(*rapid.T){
				"op": func(rt *rapid.T) {
					if aborted {
						return
					}
					op := g.genGenericOp(rt, focus)
					c.Ops = append(c.Ops, op)
					cs.Feed(fmt.Sprintf("%+v", op))
					k := len(c.Ops) - 1
					var msg string
					if p := core.Call(func() { msg = g.apply(&c.Ops[k]) }); p != nil {
						fail(fmt.Sprintf("op %d %+v panicked: %v", k, op, p))
						return
					}
					if msg != "" {
						fail(fmt.Sprintf("op %d %+v: %s", k, op, msg))
						return
					}
					if msg := g.compare(); msg != "" {
						fail(fmt.Sprintf("after op %d %+v: %s", k, op, msg))
					}
				},
			})
		})
	})
}

func TestC18(t *testing.T) {
	if msg := checkTFuncs(); msg != "" {
		core.WriteFail(&gReplay{Property: "C18", Test: "TestC18", Build: core.BuildName(), Message: msg})
		t.Fatalf("C18 violated: %s", msg)
	}
	runGenericProp(t, &genericProp{ID: "C18", Test: "TestC18",
		// an ID-based call that accepts illegal arguments is C10's business; the case ends there
		Owns: func(msg string) bool { return !strings.Contains(msg, "HARNESS: the ID-based equivalent") },
		Rule: fmt.Sprintf("generated code instantiates MapN/FilterN/QueryN for every arity 0-12 in natural order, reversed order and with the relation type at a varying position (%d instantiations over 17 static types), plus Map, Exchange; generated op histories drive a world Wg through the generic calls and a lock-step world Wc through the ID-based calls the documentation names as equivalent (creation with/without values and targets, batch creation, Add/Assign/Remove, batch variants, RemoveEntities(exclusive), Map.Set/SetRelation/SetRelationBatch(Q), Exchange.*; MapN built with a relation component outside its own components: Add/Remove/RemoveBatch(Q) with a target); after every op both worlds are compared completely (alive, masks, every component's bytes, relation targets, returned handles and counts). MapN.Get/GetUnchecked and QueryN.Get must be pointer-identical, position by position, to World.Get of the declared type (nil <=> absent). Filter scripts call Optional/With/Without/Exclusive/WithRelation(target?) before and BETWEEN queries, Register/Unregister, queries with a call-time target, and two queries open at once with different targets; 16 classes of illegal calls (removed entities and targets, present/absent components, counts <= 0, relation calls on non-relation or missing components) must panic exactly like their ID-based equivalents and change nothing; every query's entity set, Count and Relation() must equal those of the core MaskFilter/RelationFilter built from the builder state at query-build time; non-trivial = a filter queried again after its builder was modified or used, two open queries, an optional component absent on a visited entity, or a Get on arity >= 2; every adapter is exercised in every run (round-robin)", len(gAdapters))})
}

// scribbleComps overwrites a component list after it was passed to a builder call.
func scribbleComps(cs []generic.Comp) {
	for i := range cs {
		cs[i] = allStaticTypes[(i*3+nST-1)%nST]
	}
}

// component types that are NOT registered when the worlds are created
type (
	GL0 struct{ V uint8 }
	GL1 struct{ V uint16 }
	GL2 struct{}
)

var lateTypes = []reflect.Type{reflect.TypeOf(GL0{}), reflect.TypeOf(GL1{}), reflect.TypeOf(GL2{})}

const lateKey = 100 // key of late type k in gEnt.comps: lateKey+k

// lateStep registers the next late type in both worlds (or reuses the last one) and adds it to an alive
// entity that has all included types of the filter under construction.
func (g *gWorld) lateStep(s gStep, included func(t int) bool) string {
	if g.Wg.IsLocked() || len(g.ents) == 0 {
		return ""
	}
	k := len(g.lateIDs)
	if k < len(lateTypes) && s.E%2 == 0 {
		// first use of the new type through a generic filter WHILE THE WORLD IS LOCKED: refused (a new
		// component type cannot be registered then); the same filter object must work afterwards
		var query func() int
		switch k {
		case 0:
			fl := generic.NewFilter1[GL0]()
			query = func() int { q := fl.Query(g.Wg); c := q.Count(); q.Close(); return c }
		case 1:
			fl := generic.NewFilter1[GL1]()
			query = func() int { q := fl.Query(g.Wg); c := q.Count(); q.Close(); return c }
		default:
			fl := generic.NewFilter1[GL2]()
			query = func() int { q := fl.Query(g.Wg); c := q.Count(); q.Close(); return c }
		}
		q0 := g.Wg.Query(ecs.All())
		p := core.Call(func() { query() })
		q0.Close()
		if p == nil {
			return "a generic filter over a component type the world has not seen was queried in a locked world without the documented panic"
		}
		if g.Wg.IsLocked() {
			return "the refused query of a generic filter (new component type, locked world) left the world locked"
		}
		cnt := -1
		if p2 := core.Call(func() { cnt = query() }); p2 != nil {
			return fmt.Sprintf("a generic filter that was refused once (new component type, locked world) panics when queried after the world was unlocked: %v", p2)
		}
		if cnt != 0 || g.Wg.IsLocked() {
			return fmt.Sprintf("a generic filter that was refused once counts %d entities of a type no entity has (world locked: %v)", cnt, g.Wg.IsLocked())
		}
		g.label("generic filter over a new type refused under lock, then used")
	}
	if k < len(lateTypes) {
		a, b := ecs.TypeID(g.Wg, lateTypes[k]), ecs.TypeID(g.Wc, lateTypes[k])
		if a != b {
			return fmt.Sprintf("HARNESS: late type %d got id %v in the generic world and %v in the core world", k, a, b)
		}
		g.lateIDs = append(g.lateIDs, a)
	} else {
		k = len(lateTypes) - 1
	}
	var pick *gEnt
	n := len(g.ents)
	start := ((s.F % n) + n) % n
	for i := 0; i < n && pick == nil; i++ {
		e := g.ents[(start+i)%n]
		if !e.alive || e.comps[lateKey+k] {
			continue
		}
		ok := true
		for t := 0; t < nST; t++ {
			if included(t) && !e.comps[t] {
				ok = false
				break
			}
		}
		if ok {
			pick = e
		}
	}
	if pick == nil {
		return ""
	}
	g.Wg.Add(pick.h, g.lateIDs[k])
	g.Wc.Add(pick.h, g.lateIDs[k])
	pick.comps[lateKey+k] = true
	g.label("a component type registered after the filter was configured, on a matching entity")
	return ""
}

// exchWithRelation configures the long-lived Exchange helper's relation component - only when it is
// not configured for that component already (so that a later Adds() has to keep it working).
func (g *gWorld) exchWithRelation(ex *generic.Exchange, rel int) {
	if g.exchRel == rel+1 {
		return
	}
	ex.WithRelation(allStaticTypes[rel])
	g.exchRel = rel + 1
}
