package props

// C03 — queries visit exactly the matching entities, once; Count/EntityAt/Step agree.

import (
	"testing"

	"verifharness/core"

	"pgregory.net/rapid"
)

func TestC03(t *testing.T) {
	mix := core.Mix{
		core.OpNew: 4, core.OpNewWith: 2, core.OpBuildNew: 6, core.OpBuildBatch: 6,
		core.OpRemoveEnt: 6, core.OpRemoveEnts: 2,
		core.OpAdd: 4, core.OpRemove: 3, core.OpExchange: 3, core.OpRelExchange: 3, core.OpRelSet: 6,
		core.OpBatchAdd: 3, core.OpBatchRemove: 2, core.OpBatchExch: 2, core.OpBatchSetRel: 3, core.OpRelExchB: 2,
		core.OpSet:   2,
		core.OpQuery: 30, core.OpRegister: 6, core.OpUnregister: 1, "useRegistered": 40, core.OpReset: 1,
	}
	runSimProp(t, &simProp{
		ID: "C03",
		Cfg: core.SimConfig{
			Prop: "C03",
			// inv.cache: the cached table list (and its removal index) IS the iteration state of the
			// "registered" strategy; C07 owns it too
			Owned:  core.Own(core.CatScan, core.CatPanicQuery, core.CatBatchQuery, core.CatCorrupt, core.CatInvCache),
			Verify: core.FullVerify,

			ScanRegistered: true,
		},
		Mix:      mix,
		MaxPlain: 5, MaxRel: 3,
		Setup: func(rt *rapid.T, sim *core.Sim, g *core.Gen) {
			g.DeadFilterTargets = true
			g.TargetRemovalPct = 40
		},
		Rule: "relation-heavy world histories (so that multi-table nodes, empty, retired and recycled tables exist) interleaved with queries: generated filter (mask/without/exclusive/any/noneof/anynot, and/or/xor/not nesting <= 3, relation filters with alive/dead/zero targets, plain or registered) and a generated script of Count, EntityAt(i), EntityAt(all i), Next, Step(k) with k from 1 to beyond the end, Close; oracle: a pure-Next pass over an identical query gives the reference order; the visited set must equal the model's matching set (relation-less entities under a top-level relation filter: may), every entity once (hook: the cached table list of every registered filter equals the list recomputed from scratch and its removal index is consistent - the state the cached iteration strategy walks; co-owned with C07); Count == visited; EntityAt(i) == i-th visited; every Next/Step lands on the entity at the same ordinal and returns false exactly past the end; at each position Entity/Has/Get/Mask/Ids/Relation agree with the World's accessors and the model; the Q-variant queries of all batch calls are checked the same way (exactly the affected entities, new components accessible); non-trivial = the result spans >= 2 tables, or a Step was executed on a non-empty result",
		Observe: func(tr *tracker, op *core.Op) {
			f := tr.sim.Flags
			if f["query.tables"] >= 2 {
				tr.cs.NonTrivial()
			}
			if op.K == core.OpQuery && f["query.entities"] >= 2 {
				for _, st := range op.Script {
					if st.K == "step" {
						tr.cs.NonTrivial()
					}
				}
			}
			if op.Q && f["batch.affected"] >= 1 {
				tr.cs.Label("batch-result query with >=1 entity")
				if f["batch.sources"] >= 2 {
					tr.cs.NonTrivial()
				}
			}
			if op.K == core.OpQuery && op.Reg {
				tr.cs.Label("query through registered filter")
			}
			if op.K == core.OpQuery && op.F != nil && op.F.T == "rel" {
				tr.cs.Label("query through relation filter")
			}
		},
	})
}
