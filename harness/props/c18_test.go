package props

// C18 — the generic API is a faithful typed view of the ID-based core.
//
// Two worlds in lock-step: Wg is driven through package generic, Wc through the ID-based calls
// the documentation names as equivalent. After every op the worlds are compared completely.
// Queries built from generic filters are compared, on Wg itself, with the equivalent core
// filter built from the builder state at query-build time.

import (
	"bytes"
	"fmt"
	"reflect"
	"sort"
	"unsafe"

	"verifharness/core"

	"github.com/mlange-42/arche/ecs"
	"github.com/mlange-42/arche/ecs/event"
	"github.com/mlange-42/arche/generic"
)

// static component types (no padding, so values compare bytewise)
type (
	G0  struct{ V uint64 }
	G1  struct{ V [2]uint32 }
	G2  struct{ V uint64 }
	G3  struct{ V [3]uint64 }
	G4  struct{ V uint64 }
	G5  struct{ V uint32 }
	G6  struct{ V uint64 }
	G7  struct{ V [2]uint64 }
	G8  struct{ V uint64 }
	G9  struct{ V uint16 }
	G10 struct{ V uint64 }
	G11 struct{ V uint8 }
	GR0 struct {
		ecs.Relation
		V uint64
	}
	GR1 struct{ ecs.Relation }
	GX0 struct{ V uint64 }
	GX1 struct{ V uint32 }
	GX2 struct{}
)

var allStaticTypes = []reflect.Type{
	reflect.TypeOf(G0{}), reflect.TypeOf(G1{}), reflect.TypeOf(G2{}), reflect.TypeOf(G3{}), reflect.TypeOf(G4{}), reflect.TypeOf(G5{}),
	reflect.TypeOf(G6{}), reflect.TypeOf(G7{}), reflect.TypeOf(G8{}), reflect.TypeOf(G9{}), reflect.TypeOf(G10{}), reflect.TypeOf(G11{}),
	reflect.TypeOf(GR0{}), reflect.TypeOf(GR1{}), reflect.TypeOf(GX0{}), reflect.TypeOf(GX1{}), reflect.TypeOf(GX2{}),
}

const (
	tGR0 = 12
	tGR1 = 13
	tGX0 = 14
	nST  = 17
)

func isRelType(t int) bool { return t == tGR0 || t == tGR1 }

// untyped faces of the generated adapters
type gQuery interface {
	Base() *ecs.Query
	Get() []unsafe.Pointer
	Relation() ecs.Entity
}

type gFilter interface {
	Optional(c ...generic.Comp)
	With(c ...generic.Comp)
	Without(c ...generic.Comp)
	Exclusive()
	WithRelation(c generic.Comp, t ...ecs.Entity)
	Filter(w *ecs.World, t ...ecs.Entity) ecs.Filter
	Query(w *ecs.World, t ...ecs.Entity) gQuery
	Register(w *ecs.World)
	Unregister(w *ecs.World)
}

type gMap interface {
	Get(e ecs.Entity) []unsafe.Pointer
	GetUnchecked(e ecs.Entity) []unsafe.Pointer
	New(t ...ecs.Entity) ecs.Entity
	NewBatch(n int, t ...ecs.Entity)
	NewBatchQ(n int, t ...ecs.Entity) gQuery
	NewWith(v []unsafe.Pointer, t ...ecs.Entity) ecs.Entity
	Add(e ecs.Entity, t ...ecs.Entity)
	AddBatch(f ecs.Filter, t ...ecs.Entity) int
	AddBatchQ(f ecs.Filter, t ...ecs.Entity) gQuery
	Assign(e ecs.Entity, v []unsafe.Pointer)
	Remove(e ecs.Entity, t ...ecs.Entity)
	RemoveBatch(f ecs.Filter, t ...ecs.Entity) int
	RemoveBatchQ(f ecs.Filter, t ...ecs.Entity) gQuery
	RemoveEntities(x bool) int
}

type gAdapter struct {
	Name      string
	N         int
	Types     []int // static type index per position
	HasRel    bool
	NewMap    func(w *ecs.World, rel ...generic.Comp) gMap
	NewFilter func() gFilter
}

// ---------------------------------------------------------------------------------------------

type gStep struct {
	K string `json:"k"` // optional | with | without | exclusive | relation | query | register | unregister | two
	T []int  `json:"t,omitempty"`
	E int    `json:"e,omitempty"` // target entity index (-1 zero, -2 none)
	F int    `json:"f,omitempty"` // second target for "two"
}

type gOp struct {
	K      string  `json:"k"`
	A      int     `json:"a"`           // adapter index
	E      int     `json:"e"`           // entity index
	T      int     `json:"t"`           // target entity index, -1 zero, -2 none
	N      int     `json:"n,omitempty"` // count
	Tok    uint32  `json:"tok,omitempty"`
	Q      bool    `json:"q,omitempty"`
	X      bool    `json:"x,omitempty"`
	Ty     []int   `json:"ty,omitempty"`  // static type indices (map1 / exchange adds / filter of batch)
	Ty2    []int   `json:"ty2,omitempty"` // exchange removes / excluded types of the batch filter
	Script []gStep `json:"script,omitempty"`
}

type gReplay struct {
	Property string `json:"property"`
	Test     string `json:"test,omitempty"`
	Build    string `json:"build"`
	Message  string `json:"message"`
	Cap      int    `json:"cap"`
	Listen   bool   `json:"listen,omitempty"` // both worlds carry a listener; their event logs must agree
	Ops      []gOp  `json:"ops"`
}

type gEnt struct {
	h      ecs.Entity
	alive  bool
	comps  map[int]bool
	target int
}

type gWorld struct {
	relQueries int // relation filters with a target queried through the generic API
	illegal    int // illegal generic calls that were refused
	illWeight  int
	lateIDs    []ecs.ID          // component types registered during the history (lateTypes)
	maps       map[string]gMap   // MapN helper objects are created once per world and reused (also across ops)
	exch       *generic.Exchange // the world's long-lived Exchange helper
	exchRel    int               // relation type index + 1 the helper is configured for (0: none)
	Wg, Wc     *ecs.World
	recG, recC *gRecorder // event logs since the last comparison (nil: no listener)
	ids        []ecs.ID
	ents       []*gEnt
	labels     map[string]bool
	nontri     bool
}

func newGWorld(cap int) *gWorld {
	wg := ecs.NewWorld(ecs.NewConfig().WithCapacityIncrement(cap))
	wc := ecs.NewWorld(ecs.NewConfig().WithCapacityIncrement(cap))
	g := &gWorld{Wg: &wg, Wc: &wc, labels: map[string]bool{}}
	for _, tp := range allStaticTypes {
		a, b := ecs.TypeID(g.Wg, tp), ecs.TypeID(g.Wc, tp)
		if a != b {
			panic("harness: static types got different ids")
		}
		g.ids = append(g.ids, a)
	}
	return g
}

func (g *gWorld) mapIDs(ts []int) []ecs.ID {
	out := make([]ecs.ID, len(ts))
	for i, t := range ts {
		out[i] = g.ids[t]
	}
	return out
}

func compsOf(ts []int) []generic.Comp {
	out := make([]generic.Comp, len(ts))
	for i, t := range ts {
		out[i] = allStaticTypes[t]
	}
	return out
}

func (g *gWorld) handle(i int) ecs.Entity {
	if i < 0 || i >= len(g.ents) {
		return ecs.Entity{}
	}
	return g.ents[i].h
}

func (g *gWorld) targetArg(t int) []ecs.Entity {
	if t == -2 {
		return nil
	}
	return []ecs.Entity{g.handle(t)}
}

// values builds one value per type index, as typed pointers (unsafe) and as ecs.Components.
func (g *gWorld) values(ts []int, tok uint32) ([]unsafe.Pointer, []ecs.Component) {
	ptrs := make([]unsafe.Pointer, len(ts))
	comps := make([]ecs.Component, len(ts))
	for i, t := range ts {
		tp := allStaticTypes[t]
		v1, v2 := reflect.New(tp), reflect.New(tp)
		b := core.Expand(tok+uint32(i)*7919, int(tp.Size()))
		if tp.Size() > 0 {
			copy(unsafe.Slice((*byte)(v1.UnsafePointer()), tp.Size()), b)
			copy(unsafe.Slice((*byte)(v2.UnsafePointer()), tp.Size()), b)
		}
		ptrs[i] = v1.UnsafePointer()
		comps[i] = ecs.Component{ID: g.ids[t], Comp: v2.Interface()}
	}
	return ptrs, comps
}

// compare checks that both worlds are in the same observable state.
// gRecorder logs every event of a world as text.
type gRecorder struct{ log []string }

func (r *gRecorder) Notify(w *ecs.World, e ecs.EntityEvent) {
	rel := func(p *ecs.ID) string {
		if p == nil {
			return "-"
		}
		return fmt.Sprint(*p)
	}
	// (the ID lists are reported in the order the caller gave them: compared as sets)
	ids := func(l []ecs.ID) []string {
		out := []string{}
		for _, id := range l {
			out = append(out, fmt.Sprint(id))
		}
		sort.Strings(out)
		return out
	}
	r.log = append(r.log, fmt.Sprintf("%v +%v -%v rel %s->%s oldtarget %v types %08b", e.Entity, ids(e.AddedIDs), ids(e.RemovedIDs), rel(e.OldRelation), rel(e.NewRelation), e.OldTarget, e.EventTypes))
}
func (r *gRecorder) Subscriptions() event.Subscription { return event.All }
func (r *gRecorder) Components() *ecs.Mask             { return nil }

// listen installs a recording listener on both worlds: "exactly the effect" of the documented
// equivalent includes the events it emits (one call, not a decomposition into several).
func (g *gWorld) listen() {
	g.recG, g.recC = &gRecorder{}, &gRecorder{}
	g.Wg.SetListener(g.recG)
	g.Wc.SetListener(g.recC)
	g.label("listener on both worlds (event logs compared)")
}

func (g *gWorld) compareEvents() string {
	if g.recG == nil {
		return ""
	}
	a, b := append([]string{}, g.recG.log...), append([]string{}, g.recC.log...)
	g.recG.log, g.recC.log = g.recG.log[:0], g.recC.log[:0]
	if len(a) > 0 {
		g.label("events compared")
	}
	sort.Strings(a)
	sort.Strings(b)
	if len(a) != len(b) {
		return fmt.Sprintf("the generic call emitted %d events, its ID-based equivalent %d: generic %v, core %v", len(a), len(b), a, b)
	}
	for i := range a {
		if a[i] != b[i] {
			return fmt.Sprintf("the generic call emitted event [%s], its ID-based equivalent [%s]", a[i], b[i])
		}
	}
	return ""
}

func (g *gWorld) compare() string {
	if msg := g.compareEvents(); msg != "" {
		return msg
	}
	if a, b := g.Wg.Stats().Entities.Used, g.Wc.Stats().Entities.Used; a != b {
		return fmt.Sprintf("generic world has %d entities, core world %d", a, b)
	}
	for i, e := range g.ents {
		ag, ac := g.Wg.Alive(e.h), g.Wc.Alive(e.h)
		if ag != ac {
			return fmt.Sprintf("entity %d %v: alive in generic world %v, in core world %v", i, e.h, ag, ac)
		}
		if !ac {
			continue
		}
		if g.Wg.Mask(e.h) != g.Wc.Mask(e.h) {
			return fmt.Sprintf("entity %d %v: component sets differ: generic world %v, core world %v", i, e.h, g.Wg.Ids(e.h), g.Wc.Ids(e.h))
		}
		for t, tp := range allStaticTypes {
			pg, pc := g.Wg.Get(e.h, g.ids[t]), g.Wc.Get(e.h, g.ids[t])
			if (pg == nil) != (pc == nil) {
				return fmt.Sprintf("entity %d: component %v present in one world only", i, tp)
			}
			if pg != nil && tp.Size() > 0 {
				bg, bc := unsafe.Slice((*byte)(pg), tp.Size()), unsafe.Slice((*byte)(pc), tp.Size())
				if !bytes.Equal(bg, bc) {
					return fmt.Sprintf("entity %d: value of %v differs: generic world %x, core world %x", i, tp, bg, bc)
				}
			}
			if pg != nil && isRelType(t) {
				tg, tc := g.Wg.Relations().Get(e.h, g.ids[t]), g.Wc.Relations().Get(e.h, g.ids[t])
				if tg != tc {
					return fmt.Sprintf("entity %d: relation target differs: generic world %v, core world %v", i, tg, tc)
				}
			}
		}
	}
	return ""
}

func (g *gWorld) bind(hg, hc []ecs.Entity, comps []int, target int) string {
	if len(hg) != len(hc) {
		return fmt.Sprintf("generic call created %d entities, core call %d", len(hg), len(hc))
	}
	sort.Slice(hg, func(i, j int) bool { return hg[i].ID() < hg[j].ID() })
	sort.Slice(hc, func(i, j int) bool { return hc[i].ID() < hc[j].ID() })
	for i := range hg {
		if hg[i] != hc[i] {
			return fmt.Sprintf("generic call returned handle %v, core call %v", hg[i], hc[i])
		}
		e := &gEnt{h: hg[i], alive: true, comps: map[int]bool{}, target: target}
		for _, c := range comps {
			e.comps[c] = true
		}
		g.ents = append(g.ents, e)
	}
	return ""
}

func newHandles(w *ecs.World, known map[ecs.Entity]bool) []ecs.Entity {
	out := []ecs.Entity{}
	q := w.Query(ecs.All())
	for q.Next() {
		if !known[q.Entity()] {
			out = append(out, q.Entity())
		}
	}
	return out
}

func (g *gWorld) known() map[ecs.Entity]bool {
	m := map[ecs.Entity]bool{}
	for _, e := range g.ents {
		if e.alive {
			m[e.h] = true
		}
	}
	return m
}

// checkQueryGet compares, at the query's position, the typed pointers with World.Get.
func (g *gWorld) checkQueryGet(ad *gAdapter, q gQuery, what string) string {
	e := q.Base().Entity()
	ptrs := q.Get()
	if len(ptrs) != ad.N {
		return fmt.Sprintf("%s: Get returned %d pointers for arity %d", what, len(ptrs), ad.N)
	}
	for i, p := range ptrs {
		want := g.Wg.Get(e, g.ids[ad.Types[i]])
		if p != want {
			return fmt.Sprintf("%s: Get() position %d (type %v) is not the entity's component of that type (nil: %v, world nil: %v)", what, i, allStaticTypes[ad.Types[i]], p == nil, want == nil)
		}
	}
	return ""
}

func (g *gWorld) label(l string) { g.labels[l] = true }

func (g *gWorld) entHasAll(e *gEnt, ts []int) bool {
	for _, t := range ts {
		if !e.comps[t] {
			return false
		}
	}
	return true
}

func (g *gWorld) entHasNone(e *gEnt, ts []int) bool {
	for _, t := range ts {
		if e.comps[t] {
			return false
		}
	}
	return true
}

func (g *gWorld) relOf(e *gEnt) int {
	for t := range e.comps {
		if isRelType(t) {
			return t
		}
	}
	return -1
}

func relIn(ts []int) int {
	for _, t := range ts {
		if isRelType(t) {
			return t
		}
	}
	return -1
}

// apply executes one op on both worlds. It returns "" or a violation message; ops whose
// preconditions do not hold in the current state are skipped (generation steers around them).
func (g *gWorld) apply(op *gOp) string {
	ad := &gAdapters[op.A%len(gAdapters)]
	var ent *gEnt
	if len(g.ents) > 0 {
		ent = g.ents[op.E%len(g.ents)]
	}
	targetOK := func(t int) bool {
		return t < 0 || (t < len(g.ents) && g.ents[t].alive)
	}
	var rel []generic.Comp
	relT := relIn(ad.Types)
	if relT >= 0 {
		rel = []generic.Comp{allStaticTypes[relT]}
	}
	switch op.K {
	case "mapNew", "mapNewWith", "mapNewBatch":
		if ad.NewMap == nil {
			return ""
		}
		t := op.T
		if relT < 0 || !targetOK(t) {
			t = -2
		}
		m := g.mapOf(ad, rel)
		ids := g.mapIDs(ad.Types)
		var hg, hc []ecs.Entity
		known := g.known()
		switch op.K {
		case "mapNew":
			hg = append(hg, m.New(g.targetArg(t)...))
			if t == -2 {
				hc = append(hc, g.Wc.NewEntity(ids...))
			} else {
				hc = append(hc, ecs.NewBuilder(g.Wc, ids...).WithRelation(g.ids[relT]).New(g.handle(t)))
			}
		case "mapNewWith":
			ptrs, comps := g.values(ad.Types, op.Tok)
			hg = append(hg, m.NewWith(ptrs, g.targetArg(t)...))
			if t == -2 {
				hc = append(hc, g.Wc.NewEntityWith(comps...))
			} else {
				hc = append(hc, ecs.NewBuilderWith(g.Wc, comps...).WithRelation(g.ids[relT]).New(g.handle(t)))
			}
		default:
			n := op.N%5 + 1
			if op.Q {
				q := m.NewBatchQ(n, g.targetArg(t)...)
				if q.Base().Count() != n {
					return fmt.Sprintf("Map%d.NewBatchQ(%d): query counts %d", ad.N, n, q.Base().Count())
				}
				for q.Base().Next() {
					hg = append(hg, q.Base().Entity())
					if msg := g.checkQueryGet(ad, q, fmt.Sprintf("Map%d(%s).NewBatchQ", ad.N, ad.Name)); msg != "" {
						q.Base().Close()
						return msg
					}
					if t != -2 {
						if q.Relation() != g.handle(t) {
							q.Base().Close()
							return fmt.Sprintf("Map%d.NewBatchQ: Relation() = %v, target given %v", ad.N, q.Relation(), g.handle(t))
						}
					}
				}
			} else {
				m.NewBatch(n, g.targetArg(t)...)
				hg = newHandles(g.Wg, known)
			}
			b := ecs.NewBuilder(g.Wc, ids...)
			if t == -2 {
				b.NewBatch(n)
			} else {
				b.WithRelation(g.ids[relT]).NewBatch(n, g.handle(t))
			}
			hc = newHandles(g.Wc, known)
		}
		tt := -1
		if t >= 0 {
			tt = t
		}
		if msg := g.bind(hg, hc, ad.Types, tt); msg != "" {
			return msg
		}
		if ad.N >= 2 {
			g.label("map arity>=2 creation")
		}
	case "mapGet":
		if ad.NewMap == nil || ent == nil || !ent.alive {
			return ""
		}
		if !ent.comps[ad.Types[0]] && false {
			return ""
		}
		m := g.mapOf(ad, rel)
		got := m.Get(ent.h)
		gotU := m.GetUnchecked(ent.h)
		for i, t := range ad.Types {
			want := g.Wg.Get(ent.h, g.ids[t])
			if got[i] != want || gotU[i] != want {
				return fmt.Sprintf("Map%d(%s).Get position %d (type %v) is not World.Get of that type", ad.N, ad.Name, i, allStaticTypes[t])
			}
			if want == nil {
				g.label("Map.Get with an absent component")
			}
		}
		if ad.N >= 2 {
			g.nontri = true
		}
	case "mapAdd", "mapAssign":
		if ad.NewMap == nil || ent == nil || !ent.alive || !g.entHasNone(ent, ad.Types) {
			return ""
		}
		if relT >= 0 && g.relOf(ent) >= 0 {
			return ""
		}
		t := op.T
		if relT < 0 || !targetOK(t) || op.K == "mapAssign" {
			t = -2
		}
		m := g.mapOf(ad, rel)
		ids := g.mapIDs(ad.Types)
		if op.K == "mapAdd" {
			m.Add(ent.h, g.targetArg(t)...)
			if t == -2 {
				g.Wc.Add(ent.h, ids...)
			} else {
				g.Wc.Relations().Exchange(ent.h, ids, nil, g.ids[relT], g.handle(t))
			}
		} else {
			ptrs, comps := g.values(ad.Types, op.Tok)
			m.Assign(ent.h, ptrs)
			g.Wc.Assign(ent.h, comps...)
		}
		for _, c := range ad.Types {
			ent.comps[c] = true
		}
		if t >= 0 {
			ent.target = t
		}
	case "mapAddT", "mapRemoveT":
		// MapN built with a relation component that is NOT one of its own components: Add / Remove with
		// a target change the entity's components and re-target the relation it already carries
		if ad.NewMap == nil || ad.HasRel || ad.N == 0 || !targetOK(op.T) || op.T == -2 {
			return ""
		}
		ids := g.mapIDs(ad.Types)
		suitable := ent != nil && ent.alive && ent.comps[tGR0] &&
			((op.K == "mapAddT" && g.entHasNone(ent, ad.Types)) || (op.K == "mapRemoveT" && g.entHasAll(ent, ad.Types)))
		if !suitable {
			// no such entity yet: make one (ID-based, in both worlds) that carries the relation
			// component and, for Remove, the map's components
			with := []int{tGR0}
			if op.K == "mapRemoveT" {
				with = append(with, ad.Types...)
			}
			hg, hc := g.Wg.NewEntity(g.mapIDs(with)...), g.Wc.NewEntity(g.mapIDs(with)...)
			if msg := g.bind([]ecs.Entity{hg}, []ecs.Entity{hc}, with, -1); msg != "" {
				return msg
			}
			ent = g.ents[len(g.ents)-1]
		}
		m := g.mapOfExt(ad)
		if op.K == "mapAddT" {
			m.Add(ent.h, g.handle(op.T))
			g.Wc.Relations().Exchange(ent.h, ids, nil, g.ids[tGR0], g.handle(op.T))
			for _, c := range ad.Types {
				ent.comps[c] = true
			}
		} else {
			m.Remove(ent.h, g.handle(op.T))
			g.Wc.Relations().Exchange(ent.h, nil, ids, g.ids[tGR0], g.handle(op.T))
			for _, c := range ad.Types {
				delete(ent.comps, c)
			}
		}
		ent.target = op.T
		g.nontri = true
		g.label("MapN with an external relation: " + op.K)
	case "mapAddBatchT":
		if ad.NewMap == nil || ad.HasRel || ad.N == 0 || !targetOK(op.T) || op.T == -2 {
			return ""
		}
		{
			m := g.mapOfExt(ad)
			ids := g.mapIDs(ad.Types)
			fg := ecs.All(g.ids[tGR0]).Without(ids...)
			fc := ecs.All(g.ids[tGR0]).Without(ids...)
			var cg int
			if op.Q {
				q := m.AddBatchQ(&fg, g.handle(op.T))
				cg = q.Base().Count()
				for q.Base().Next() {
					if msg := g.checkQueryGet(ad, q, fmt.Sprintf("Map%d(%s).AddBatchQ(filter, target)", ad.N, ad.Name)); msg != "" {
						q.Base().Close()
						return msg
					}
				}
			} else {
				cg = m.AddBatch(&fg, g.handle(op.T))
			}
			cc := g.Wc.Relations().ExchangeBatch(&fc, ids, nil, g.ids[tGR0], g.handle(op.T))
			if cg != cc {
				return fmt.Sprintf("Map%d.AddBatch(filter, target) affected %d entities, Relations.ExchangeBatch %d", ad.N, cg, cc)
			}
			for _, e := range g.ents {
				if e.alive && e.comps[tGR0] && g.entHasNone(e, ad.Types) {
					for _, c := range ad.Types {
						e.comps[c] = true
					}
					e.target = op.T
				}
			}
			if cg > 0 {
				g.label("MapN with an external relation: AddBatch with target")
			}
		}
	case "mapRemoveBatchT":
		if ad.NewMap == nil || ad.HasRel || ad.N == 0 || !targetOK(op.T) || op.T == -2 {
			return ""
		}
		m := g.mapOfExt(ad)
		ids := g.mapIDs(ad.Types)
		inc := append(append([]int{}, ad.Types...), tGR0)
		fg, fc := ecs.All(g.mapIDs(inc)...), ecs.All(g.mapIDs(inc)...)
		var cg int
		if op.Q {
			q := m.RemoveBatchQ(fg, g.handle(op.T))
			cg = q.Base().Count()
			for q.Base().Next() {
				if q.Base().Relation(g.ids[tGR0]) != g.handle(op.T) {
					q.Base().Close()
					return fmt.Sprintf("Map%d.RemoveBatchQ(filter, target): the query reports target %v, want %v", ad.N, q.Base().Relation(g.ids[tGR0]), g.handle(op.T))
				}
			}
		} else {
			cg = m.RemoveBatch(fg, g.handle(op.T))
		}
		cc := g.Wc.Relations().ExchangeBatch(fc, nil, ids, g.ids[tGR0], g.handle(op.T))
		if cg != cc {
			return fmt.Sprintf("Map%d.RemoveBatch(filter, target) affected %d entities, Relations.ExchangeBatch %d", ad.N, cg, cc)
		}
		for _, e := range g.ents {
			if e.alive && g.entHasAll(e, inc) {
				for _, c := range ad.Types {
					delete(e.comps, c)
				}
				e.target = op.T
			}
		}
		if cg > 0 {
			g.label("MapN with an external relation: RemoveBatch with target")
		}
	case "mapRemove":
		if ad.NewMap == nil || ent == nil || !ent.alive || !g.entHasAll(ent, ad.Types) {
			return ""
		}
		m := g.mapOf(ad, rel)
		m.Remove(ent.h)
		g.Wc.Remove(ent.h, g.mapIDs(ad.Types)...)
		for _, c := range ad.Types {
			delete(ent.comps, c)
		}
		if relT >= 0 {
			ent.target = -1
		}
	case "mapAddBatch", "mapRemoveBatch":
		if ad.NewMap == nil {
			return ""
		}
		// the batch filter is a core filter: all of Ty, none of Ty2 (+ the map's own types on the right side)
		inc, exc := append([]int{}, op.Ty...), append([]int{}, op.Ty2...)
		if op.K == "mapAddBatch" {
			exc = append(exc, ad.Types...)
			if relT >= 0 {
				exc = append(exc, tGR0, tGR1)
			}
		} else {
			inc = append(inc, ad.Types...)
		}
		for _, t := range inc {
			for _, x := range exc {
				if t == x {
					return ""
				}
			}
		}
		t := op.T
		if relT < 0 || !targetOK(t) || op.K == "mapRemoveBatch" {
			t = -2
		}
		fg := ecs.All(g.mapIDs(inc)...).Without(g.mapIDs(exc)...)
		fc := ecs.All(g.mapIDs(inc)...).Without(g.mapIDs(exc)...)
		m := g.mapOf(ad, rel)
		ids := g.mapIDs(ad.Types)
		var cg, cc int
		add, rem := ids, []ecs.ID(nil)
		if op.K == "mapRemoveBatch" {
			add, rem = nil, ids
		}
		if op.Q {
			var q gQuery
			if op.K == "mapAddBatch" {
				q = m.AddBatchQ(&fg, g.targetArg(t)...)
			} else {
				q = m.RemoveBatchQ(&fg)
			}
			cg = q.Base().Count()
			for q.Base().Next() {
				if op.K == "mapAddBatch" {
					if msg := g.checkQueryGet(ad, q, fmt.Sprintf("Map%d(%s).AddBatchQ", ad.N, ad.Name)); msg != "" {
						q.Base().Close()
						return msg
					}
				}
			}
		} else if op.K == "mapAddBatch" {
			cg = m.AddBatch(&fg, g.targetArg(t)...)
		} else {
			cg = m.RemoveBatch(&fg)
		}
		if t == -2 {
			cc = g.Wc.Batch().Exchange(&fc, add, rem)
		} else {
			cc = g.Wc.Relations().ExchangeBatch(&fc, add, rem, g.ids[relT], g.handle(t))
		}
		if cg != cc {
			return fmt.Sprintf("Map%d.%s affected %d entities, the equivalent Batch.Exchange %d", ad.N, op.K, cg, cc)
		}
		for _, e := range g.ents {
			if !e.alive || !g.entHasAll(e, inc) || !g.entHasNone(e, exc) {
				continue
			}
			for _, c := range ad.Types {
				if op.K == "mapAddBatch" {
					e.comps[c] = true
				} else {
					delete(e.comps, c)
				}
			}
			if op.K == "mapAddBatch" && t >= 0 {
				e.target = t
			}
			if op.K == "mapRemoveBatch" && relT >= 0 {
				e.target = -1
			}
		}
		if cg > 0 {
			g.label("map batch op affecting entities")
		}
	case "mapRemoveEntities":
		if ad.NewMap == nil {
			return ""
		}
		m := g.mapOf(ad, rel)
		cg := m.RemoveEntities(op.X)
		mask := ecs.All(g.mapIDs(ad.Types)...)
		var cc int
		if op.X {
			f := mask.Exclusive()
			cc = g.Wc.Batch().RemoveEntities(&f)
		} else {
			cc = g.Wc.Batch().RemoveEntities(mask)
		}
		if cg != cc {
			return fmt.Sprintf("Map%d.RemoveEntities(%v) removed %d entities, Batch.RemoveEntities %d", ad.N, op.X, cg, cc)
		}
		for _, e := range g.ents {
			if !e.alive || !g.entHasAll(e, ad.Types) {
				continue
			}
			if op.X && len(e.comps) != len(ad.Types) {
				continue
			}
			e.alive = false
		}
	case "rm":
		if ent == nil || !ent.alive {
			return ""
		}
		g.Wg.RemoveEntity(ent.h)
		g.Wc.RemoveEntity(ent.h)
		ent.alive = false
	case "map1":
		return g.applyMap1(op, ent, targetOK)
	case "exchange":
		return g.applyExchange(op, ent, targetOK)
	case "filter":
		return g.applyFilter(op, ad, targetOK)
	case "ill":
		return g.applyIll(op, ad)
	}
	return ""
}

// mapOf returns the world's long-lived MapN object of an adapter (created at first use).
func (g *gWorld) mapOf(ad *gAdapter, rel []generic.Comp) gMap {
	if g.maps == nil {
		g.maps = map[string]gMap{}
	}
	if m, ok := g.maps[ad.Name]; ok {
		return m
	}
	m := ad.NewMap(g.Wg, rel...)
	g.maps[ad.Name] = m
	return m
}

// mapOfExt returns the world's long-lived MapN object of an adapter WITHOUT a relation type, built with
// the external relation component GR0.
func (g *gWorld) mapOfExt(ad *gAdapter) gMap {
	if g.maps == nil {
		g.maps = map[string]gMap{}
	}
	key := ad.Name + "/ext"
	if m, ok := g.maps[key]; ok {
		return m
	}
	m := ad.NewMap(g.Wg, allStaticTypes[tGR0])
	g.maps[key] = m
	return m
}
