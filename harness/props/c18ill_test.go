package props

// Illegal calls through package generic: each generic call documents an ID-based equivalent
// ("See also ..."); where the equivalent is declared illegal, the generic call must panic too and
// change nothing. Used by C18 (equivalence) and by the generic part of C10.

import (
	"fmt"

	"verifharness/core"

	"github.com/mlange-42/arche/ecs"
	"github.com/mlange-42/arche/generic"
)

const nIllClasses = 16

const illMarker = "illegal generic call"

// applyIll runs illegal class op.N (mod nIllClasses) if the current state offers the needed
// arguments; ent is any entity drawn by the generator (dead or alive), op.T another one.
func (g *gWorld) applyIll(op *gOp, ad *gAdapter) string {
	var dead, has, lacks, deadT *gEnt
	for i := range g.ents {
		// start the search at the generated index so that different entities are used
		e := g.ents[(i+op.E+len(g.ents))%len(g.ents)]
		switch {
		case !e.alive && dead == nil:
			dead = e
		case !e.alive && deadT == nil:
			deadT = e
		case e.alive && has == nil && ad.N > 0 && g.entHasAll(e, ad.Types):
			has = e
		case e.alive && lacks == nil && ad.N > 0 && g.entHasNone(e, ad.Types) && !(ad.HasRel && g.relOf(e) >= 0):
			lacks = e
		}
	}
	if deadT == nil {
		deadT = dead
	}
	var rel []generic.Comp
	relT := relIn(ad.Types)
	if relT >= 0 {
		rel = []generic.Comp{allStaticTypes[relT]}
	}
	ids := g.mapIDs(ad.Types)
	var fg, fc func()
	what := ""
	class := op.N % nIllClasses
	needMap := class <= 8 || class == 15
	if needMap && (ad.NewMap == nil || ad.N == 0) {
		return ""
	}
	var m gMap
	if needMap {
		m = g.mapOf(ad, rel)
	}
	ptrs, comps := g.values(ad.Types, op.Tok)
	switch class {
	case 0:
		if dead == nil {
			return ""
		}
		what = fmt.Sprintf("Map%d.Get of the removed entity %v", ad.N, dead.h)
		fg, fc = func() { m.Get(dead.h) }, func() { g.Wc.Get(dead.h, ids[0]) }
	case 1:
		if dead == nil {
			return ""
		}
		what = fmt.Sprintf("Map%d.Add to the removed entity %v", ad.N, dead.h)
		fg, fc = func() { m.Add(dead.h) }, func() { g.Wc.Add(dead.h, ids...) }
	case 2:
		if dead == nil {
			return ""
		}
		what = fmt.Sprintf("Map%d.Remove from the removed entity %v", ad.N, dead.h)
		fg, fc = func() { m.Remove(dead.h) }, func() { g.Wc.Remove(dead.h, ids...) }
	case 3:
		if dead == nil {
			return ""
		}
		what = fmt.Sprintf("Map%d.Assign to the removed entity %v", ad.N, dead.h)
		fg, fc = func() { m.Assign(dead.h, ptrs) }, func() { g.Wc.Assign(dead.h, comps...) }
	case 4:
		if has == nil {
			return ""
		}
		what = fmt.Sprintf("Map%d.Add of components the entity %v already has", ad.N, has.h)
		fg, fc = func() { m.Add(has.h) }, func() { g.Wc.Add(has.h, ids...) }
	case 5:
		if lacks == nil {
			return ""
		}
		what = fmt.Sprintf("Map%d.Remove of components the entity %v does not have", ad.N, lacks.h)
		fg, fc = func() { m.Remove(lacks.h) }, func() { g.Wc.Remove(lacks.h, ids...) }
	case 6:
		if relT < 0 || deadT == nil {
			return ""
		}
		what = fmt.Sprintf("Map%d.New with the removed entity %v as target", ad.N, deadT.h)
		fg = func() { m.New(deadT.h) }
		fc = func() { ecs.NewBuilder(g.Wc, ids...).WithRelation(g.ids[relT]).New(deadT.h) }
	case 7:
		n := -int(op.Tok % 3) // 0, -1, -2
		what = fmt.Sprintf("Map%d.NewBatch/NewBatchQ(%d)", ad.N, n)
		if op.Q {
			fg = func() { q := m.NewBatchQ(n); q.Base().Close() }
			fc = func() { q := ecs.NewBuilder(g.Wc, ids...).NewBatchQ(n); q.Close() }
		} else {
			fg, fc = func() { m.NewBatch(n) }, func() { ecs.NewBuilder(g.Wc, ids...).NewBatch(n) }
		}
	case 8:
		if relT < 0 || deadT == nil || lacks == nil {
			return ""
		}
		what = fmt.Sprintf("Map%d.Add to %v with the removed entity %v as target", ad.N, lacks.h, deadT.h)
		fg = func() { m.Add(lacks.h, deadT.h) }
		fc = func() { g.Wc.Relations().Exchange(lacks.h, ids, nil, g.ids[relT], deadT.h) }
	case 15:
		// a target for a map that has no relation component: the builder it documents as its
		// equivalent refuses a target without WithRelation
		if relT >= 0 {
			return ""
		}
		tgt := ecs.Entity{}
		for i := range g.ents {
			if e := g.ents[(i+op.T+len(g.ents))%len(g.ents)]; e.alive && op.Tok%2 == 0 {
				tgt = e.h
				break
			}
		}
		switch op.Tok % 4 {
		case 0:
			what = fmt.Sprintf("Map%d.New(%v) although the map has no relation", ad.N, tgt)
			fg, fc = func() { m.New(tgt) }, func() { ecs.NewBuilder(g.Wc, ids...).New(tgt) }
		case 1:
			what = fmt.Sprintf("Map%d.NewWith(values, %v) although the map has no relation", ad.N, tgt)
			fg, fc = func() { m.NewWith(ptrs, tgt) }, func() { ecs.NewBuilderWith(g.Wc, comps...).New(tgt) }
		case 2:
			what = fmt.Sprintf("Map%d.NewBatch(3, %v) although the map has no relation", ad.N, tgt)
			fg, fc = func() { m.NewBatch(3, tgt) }, func() { ecs.NewBuilder(g.Wc, ids...).NewBatch(3, tgt) }
		default:
			what = fmt.Sprintf("Map%d.NewBatchQ(3, %v) although the map has no relation", ad.N, tgt)
			fg = func() { q := m.NewBatchQ(3, tgt); q.Base().Close() }
			fc = func() { q := ecs.NewBuilder(g.Wc, ids...).NewBatchQ(3, tgt); q.Close() }
		}
	default:
		// Map[T]: G0 (plain, type index 0) and GR0 (relation)
		var noG0, withG0, withGR0, noGR0 *gEnt
		for i := range g.ents {
			e := g.ents[(i+op.E+len(g.ents))%len(g.ents)]
			if !e.alive {
				continue
			}
			if e.comps[0] && withG0 == nil {
				withG0 = e
			}
			if !e.comps[0] && noG0 == nil {
				noG0 = e
			}
			if e.comps[tGR0] && withGR0 == nil {
				withGR0 = e
			}
			if !e.comps[tGR0] && noGR0 == nil {
				noGR0 = e
			}
		}
		m0, mr := generic.NewMap[G0](g.Wg), generic.NewMap[GR0](g.Wg)
		switch class {
		case 9:
			if noG0 == nil {
				return ""
			}
			what = fmt.Sprintf("Map.Set on %v which lacks the component", noG0.h)
			fg, fc = func() { m0.Set(noG0.h, &G0{V: 1}) }, func() { g.Wc.Set(noG0.h, g.ids[0], &G0{V: 1}) }
		case 10:
			if withG0 == nil {
				return ""
			}
			what = fmt.Sprintf("Map.GetRelation of a non-relation component on %v", withG0.h)
			fg, fc = func() { m0.GetRelation(withG0.h) }, func() { g.Wc.Relations().Get(withG0.h, g.ids[0]) }
		case 11:
			if withGR0 == nil || deadT == nil {
				return ""
			}
			what = fmt.Sprintf("Map.SetRelation of %v to the removed entity %v", withGR0.h, deadT.h)
			fg, fc = func() { mr.SetRelation(withGR0.h, deadT.h) }, func() { g.Wc.Relations().Set(withGR0.h, g.ids[tGR0], deadT.h) }
		case 12:
			if noGR0 == nil || g.relOf(noGR0) >= 0 {
				return ""
			}
			what = fmt.Sprintf("Map.SetRelation on %v which lacks the relation component", noGR0.h)
			fg, fc = func() { mr.SetRelation(noGR0.h, ecs.Entity{}) }, func() { g.Wc.Relations().Set(noGR0.h, g.ids[tGR0], ecs.Entity{}) }
		case 13:
			if dead == nil {
				return ""
			}
			what = fmt.Sprintf("Map.GetRelation of the removed entity %v", dead.h)
			fg, fc = func() { mr.GetRelation(dead.h) }, func() { g.Wc.Relations().Get(dead.h, g.ids[tGR0]) }
		case 14:
			if dead == nil {
				return ""
			}
			what = fmt.Sprintf("Map.Get / Map.Has of the removed entity %v", dead.h)
			fg = func() {
				if core.Call(func() { m0.Get(dead.h) }) == nil {
					return
				}
				m0.Has(dead.h)
			}
			fc = func() {
				if core.Call(func() { g.Wc.Get(dead.h, g.ids[0]) }) == nil {
					return
				}
				g.Wc.Has(dead.h, g.ids[0])
			}
		}
	}
	if fg == nil {
		return ""
	}
	pc := core.Call(fc)
	if pc == nil {
		// the ID-based call is the reference: if it accepts the arguments, the class is not illegal
		// here (C10 proper decides whether it should be)
		return fmt.Sprintf("HARNESS: the ID-based equivalent of an %s did not panic: %s", illMarker, what)
	}
	pg := core.Call(fg)
	if pg == nil {
		return fmt.Sprintf("%s did not panic: %s (the ID-based equivalent panics with %q)", illMarker, what, fmt.Sprint(pc))
	}
	if g.Wg.IsLocked() {
		return fmt.Sprintf("%s left the world locked: %s", illMarker, what)
	}
	if msg := g.compare(); msg != "" {
		return fmt.Sprintf("%s changed the world although it panicked: %s: %s", illMarker, what, msg)
	}
	g.label("illegal generic call refused: class " + fmt.Sprint(class))
	g.illegal++
	return ""
}

// checkTFuncs: generic.T1..T12 list their type parameters in order (enumerated, once per run).
func checkTFuncs() string {
	got := map[int][]generic.Comp{
		1:  generic.T1[G0](),
		2:  generic.T2[G0, G1](),
		3:  generic.T3[G0, G1, G2](),
		4:  generic.T4[G0, G1, G2, G3](),
		5:  generic.T5[G0, G1, G2, G3, G4](),
		6:  generic.T6[G0, G1, G2, G3, G4, G5](),
		7:  generic.T7[G0, G1, G2, G3, G4, G5, G6](),
		8:  generic.T8[G0, G1, G2, G3, G4, G5, G6, G7](),
		9:  generic.T9[G0, G1, G2, G3, G4, G5, G6, G7, G8](),
		10: generic.T10[G0, G1, G2, G3, G4, G5, G6, G7, G8, G9](),
		11: generic.T11[G0, G1, G2, G3, G4, G5, G6, G7, G8, G9, G10](),
		12: generic.T12[G0, G1, G2, G3, G4, G5, G6, G7, G8, G9, G10, G11](),
	}
	for n := 1; n <= 12; n++ {
		want := compsOf(seqInts(n))
		if len(got[n]) != n {
			return fmt.Sprintf("generic.T%d returns %d types", n, len(got[n]))
		}
		for i := range want {
			if got[n][i] != want[i] {
				return fmt.Sprintf("generic.T%d: position %d is %v, type parameter %d is %v", n, i, got[n][i], i, want[i])
			}
		}
	}
	if generic.T[GR0]() != allStaticTypes[tGR0] {
		return "generic.T[GR0]() is not the type GR0"
	}
	return ""
}
