package props

// C08 — batch operations equal the same single-entity operations applied one by one.

import (
	"testing"

	"verifharness/core"
)

func TestC08(t *testing.T) {
	mix := fullMix()
	for _, k := range []string{core.OpBatchAdd, core.OpBatchRemove, core.OpBatchExch, core.OpBatchSetRel, core.OpRelExchB, core.OpRemoveEnts} {
		mix[k] = 9
	}
	mix[core.OpBuildBatch] = 10
	// batch calls also go through registered filters, interleaved with calls through plain ones
	mix[core.OpRegister] = 3
	mix[core.OpUnregister] = 1
	mix[core.OpReset] = 1
	mix["useRegistered"] = 30
	mix[core.OpRelSet] = 8
	runSimProp(t, &simProp{
		ID: "C08",
		Cfg: core.SimConfig{
			Prop:   "C08",
			Owned:  core.Own(core.CatBatchDiff, core.CatBatchQuery, core.CatPanicBatch),
			Verify: core.FullVerify,
			Loop:   true,
			// after a batch call, any difference between either world and the model is a difference
			// between the batch call and the loop of single calls
			OwnedIf: func(s *core.Sim, f *core.Finding) bool {
				if len(s.Ops) == 0 {
					return false
				}
				switch s.Ops[len(s.Ops)-1].K {
				case core.OpBatchAdd, core.OpBatchRemove, core.OpBatchExch, core.OpBatchSetRel, core.OpRelExchB, core.OpRemoveEnts, core.OpBuildBatch:
				default:
					return false
				}
				switch f.Cat {
				case core.CatComponents, core.CatRelation, core.CatHandles, core.CatScan, core.CatInvIndex, core.CatInvTable, core.CatInvNode, core.CatInvPool, core.CatObserve:
				default:
					return false
				}
				// a difference between the batch call and the loop of single calls: exactly one of
				// the two worlds deviates from the model (if both do, the single-entity operation
				// itself is broken, which is another property's business)
				okB := s.B.Verify(s.M, core.FullVerify) == nil
				okL := s.L.Verify(s.M, core.FullVerify) == nil
				return okB != okL
			},
		},
		Mix:      mix,
		MaxPlain: 5, MaxRel: 3,
		Rule: "world history (including Reset and filter registration), then a batch call through a plain or a registered filter (Builder.NewBatch(Q), Batch.Add/Remove/Exchange/SetRelation/RemoveEntities, Relations.SetBatch/ExchangeBatch and all Q variants) whose arguments are legal for every matching entity; world W1 executes the batch call, lock-step world W2 executes the documented single-entity call once per entity that W2's query through the same filter yielded immediately before; both worlds and the model (which applies the single-entity rule) are compared completely after the call and after every later op; returned count == number of matching entities; a Q variant's query yields exactly the affected entities (SetRelation: only those whose target changed), each once, with Mask/Has/Get/Relation of their new state and kept values; non-trivial = a batch call that affected entities from >= 2 source tables, or >= 2 entities at once",
		Observe: func(tr *tracker, op *core.Op) {
			f := tr.sim.Flags
			if f["batch.sources"] >= 2 || f["batch.affected"] >= 2 {
				tr.cs.NonTrivial()
			}
			if op.K == core.OpBuildBatch && op.N >= 2 {
				tr.cs.NonTrivial()
			}
			if f["batch.affected"] >= 1 {
				tr.cs.Label("batch with >=1 affected: " + op.K)
			}
		},
	})
}
