package props

import (
	"os"
	"strings"
	"testing"

	"verifharness/core"

	"pgregory.net/rapid"
)

// TestDebug owns the categories named in VERIF_DEBUG_OWN (comma separated); dev helper.
func TestDebug(t *testing.T) {
	own := strings.Split(os.Getenv("VERIF_DEBUG_OWN"), ",")
	cfg := core.SimConfig{Prop: "DEBUG", Owned: core.Own(own...), Verify: core.FullVerify}
	if os.Getenv("VERIF_DEBUG_LISTENER") != "" {
		cfg.Listener = "full"
		cfg.CheckEvents = true
	}
	cfg.CheckCache = os.Getenv("VERIF_DEBUG_CACHE") != ""
	cfg.Loop = os.Getenv("VERIF_DEBUG_LOOP") != ""
	mix := fullMix()
	if cfg.CheckCache {
		mix[core.OpRegister] = 4
		mix[core.OpUnregister] = 2
		mix["useRegistered"] = 50
		mix[core.OpReset] = 1
	}
	runSimProp(t, &simProp{ID: "DEBUG", Cfg: cfg, Mix: mix, MaxPlain: 6, MaxRel: 3, Rule: "debug"})
}

// TestDebugIllegal injects every illegal class; dev helper.
func TestDebugIllegal(t *testing.T) {
	own := strings.Split(os.Getenv("VERIF_DEBUG_OWN"), ",")
	cfg := core.SimConfig{Prop: "DEBUG", Owned: core.Own(own...), Verify: core.FullVerify, CheckRelQueries: true}
	runSimProp(t, &simProp{ID: "DEBUG", Cfg: cfg, Mix: fullMix(), MaxPlain: 6, MaxRel: 3, Rule: "debug",
		Setup: func(rt *rapid.T, sim *core.Sim, g *core.Gen) {
			g.Illegal = core.AllIllegal
			g.IllegalPct = 25
		}})
}
