package props

// C01 — component data integrity across every structural change.

import (
	"testing"

	"verifharness/core"

	"pgregory.net/rapid"
)

// fullMix exercises every mutating call of the ID-based API.
func fullMix() core.Mix {
	return core.Mix{
		core.OpNew: 6, core.OpNewWith: 6, core.OpBuildNew: 6, core.OpBuildBatch: 5,
		core.OpRemoveEnt: 8, core.OpRemoveEnts: 2,
		core.OpAdd: 6, core.OpRemove: 6, core.OpExchange: 6, core.OpAssign: 5, core.OpBuildAdd: 4, core.OpRelExchange: 4,
		core.OpSet: 8, core.OpWriteGet: 6, core.OpWriteQuery: 3,
		core.OpRelSet:   6,
		core.OpBatchAdd: 2, core.OpBatchRemove: 2, core.OpBatchExch: 2, core.OpBatchSetRel: 2, core.OpRelExchB: 2,
		core.OpQuery: 1,
	}
}

func observeC01(tr *tracker, op *core.Op) {
	m := tr.sim.M
	// a value written earlier to an entity that is still alive, then a structural change
	// (to anything), then the full read-back every step performs
	if isStructural(op.K) {
		for ord, step := range tr.written {
			if ord < len(m.Ents) && m.Ents[ord].Alive && step < tr.step {
				tr.cs.NonTrivial()
				break
			}
		}
		if op.K == core.OpReset {
			tr.written = map[int]int{}
		}
	}
	if isWrite(op) {
		switch op.K {
		case core.OpNewWith, core.OpBuildNew, core.OpBuildBatch:
			tr.written[len(m.Ents)-1] = tr.step
		default:
			tr.written[op.E] = tr.step
		}
	}
}

func TestC01(t *testing.T) {
	mix := fullMix()
	// storage is also recycled wholesale (Reset) and batch moves also go through registered filters
	mix[core.OpReset] = 1
	mix[core.OpRegister] = 2
	mix[core.OpUnregister] = 1
	mix["useRegistered"] = 30
	runSimProp(t, &simProp{
		ID: "C01",
		Cfg: core.SimConfig{
			Prop:   "C01",
			Owned:  core.Own(core.CatComponents, core.CatInvIndex, core.CatInvTable, core.CatPanicMove, core.CatObserve, core.CatEventValues),
			Verify: core.FullVerify,
		},
		Once: func(t *testing.T, st *core.Stats) {
			// beyond the generated sizes: 16-bit boundaries of entity ids and table rows
			for _, n := range []int{65537, 70001} {
				if msg := bigWorldProbe(n, true); msg != "" {
					probeFail(t, "C01", "bigworld", msg)
				}
				st.Count("big_world_probes", 1)
			}
		},
		Mix:      mix,
		MaxPlain: 6, MaxRel: 3,
		Setup: func(rt *rapid.T, sim *core.Sim, g *core.Gen) {
			// in a third of the cases targets die often, so that tables are retired and re-used (their
			// rows must read zero again, and values written after the re-use must stay)
			if rapid.IntRange(0, 2).Draw(rt, "retire") == 0 {
				g.TargetRemovalPct = 40
			}
		},
		Rule:    "histories of all mutating ID-based calls (create/remove/add/remove/exchange/assign/builders/relations/batch through plain and registered filters, Reset, value writes through Set, Get pointer and Query.Get) over a generated universe (1-6 plain + 0-3 relation types incl. zero-sized/padded ones, IDs placed anywhere in the ID range, capacity increment 1..128); after EVERY op every alive entity's Has/Mask/Ids/Get/GetUnchecked and value bytes are compared with the model, plus a full Query(All()) pass and the structural invariants (rows <-> index, zeroed free rows); non-trivial = a non-zero value was written to an entity that is still alive when a later structural op runs (then read back); distinct = distinct op sequences",
		Observe: observeC01,
	})
}
