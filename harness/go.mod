module verifharness

go 1.23

toolchain go1.23.5

require (
	github.com/mlange-42/arche v0.0.0
	pgregory.net/rapid v1.3.0
)

replace github.com/mlange-42/arche => /repo
