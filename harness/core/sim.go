package core

import (
	"bytes"
	"encoding/json"
	"fmt"
	"runtime"
	"sort"
	"strings"

	"github.com/mlange-42/arche/ecs"
)

// Categories of findings; each property check owns some of them (DESIGN 3.9). A finding of a
// category the running check does not own ends the case quietly (counted as out of scope):
// the owning property's check is the one that reports it.
const (
	CatHandles    = "handles"    // liveness, handle uniqueness, counts (C02)
	CatComponents = "components" // component sets and values (C01)
	CatRelation   = "relation"   // relation targets (C05)
	CatScan       = "scan"       // query iteration (C03)
	CatInvPool    = "inv.pool"
	CatInvIndex   = "inv.index"
	CatInvTable   = "inv.table"
	CatInvNode    = "inv.node"
	CatInvCache   = "inv.cache"
	CatInvLocks   = "inv.locks"
	CatObserve    = "observe" // a read accessor panicked on a legal state (C01, C02)
	CatHarness    = "harness" // a bug of the harness itself: always reported as inconclusive

	CatPanicCreate   = "panic.create"   // single creation / removal of a non-target
	CatPanicMove     = "panic.move"     // add/remove/exchange/assign/set
	CatPanicRelation = "panic.relation" // anything taking or changing a relation target (single)
	CatPanicTarget   = "panic.target"   // removal of an entity that is or was a target
	CatPanicQuery    = "panic.query"
	CatPanicCached   = "panic.cached" // any call made through a registered filter; Register/Unregister
	CatPanicBatch    = "panic.batch"  // any batch call through a plain filter
	CatPanicReset    = "panic.reset"
	CatPanicListener = "panic.listener" // a call that panics only with a listener installed
	CatIllegal       = "illegal"        // an illegal call was accepted, or changed something (C10)
	CatDeadTarget    = "deadtarget"     // a dead target was accepted (C05 and C10)
	CatCorrupt       = "corrupt"        // the world is inconsistent after a recovered panic of a batch call
	CatEvents        = "events"         // C11
	CatEventValues   = "events.values"  // component values read inside a callback (C01, C11)
	CatCacheDiff     = "cachediff"      // registered vs plain filter (C07)
	CatBatchDiff     = "batchdiff"      // batch vs single (C08)
	CatBatchQuery    = "batchquery"     // query returned by a Q variant (C08, C03)
	CatLock          = "lock"           // C09
	CatResources     = "resources"      // C20
	CatPanicRes      = "panic.resources"
)

// Finding is a categorized failure.
type Finding struct {
	Cat string
	Msg string
}

func (f *Finding) Error() string { return "[" + f.Cat + "] " + f.Msg }

func finding(cat, format string, args ...any) *Finding {
	return &Finding{Cat: cat, Msg: fmt.Sprintf(format, args...)}
}

// classify turns a Verify error into a finding.
func classify(err error) *Finding {
	if err == nil {
		return nil
	}
	if f, ok := err.(*Finding); ok {
		return f
	}
	msg := err.Error()
	cat := CatComponents
	switch {
	case strings.Contains(msg, "harness bookkeeping"):
		cat = CatHarness
	case strings.Contains(msg, "reading the world panicked"):
		cat = CatObserve
	case strings.Contains(msg, "IsLocked()=true although no query is open"):
		cat = CatLock
	case strings.Contains(msg, "structural invariant broken"):
		switch {
		case strings.Contains(msg, ": pool:"):
			cat = CatInvPool
		case strings.Contains(msg, ": index:"):
			cat = CatInvIndex
		case strings.Contains(msg, ": cache:"):
			cat = CatInvCache
		case strings.Contains(msg, ": locks:"):
			cat = CatInvLocks
		case strings.Contains(msg, ": node "):
			cat = CatInvNode
		default:
			cat = CatInvTable
		}
	case strings.Contains(msg, "Alive(") || strings.Contains(msg, "zero entity") || strings.Contains(msg, "Entities.Used") || strings.Contains(msg, "Stats().Nodes") || strings.Contains(msg, "share id") || strings.Contains(msg, "already issued"):
		cat = CatHandles
	case strings.Contains(msg, "Resources."):
		cat = CatResources
	case strings.Contains(msg, "Relations.Get") || strings.Contains(msg, "Query.Relation"):
		cat = CatRelation
	case strings.Contains(msg, "Query(All())") || strings.Contains(msg, "still locked after"):
		cat = CatScan
	}
	return &Finding{Cat: cat, Msg: msg}
}

// SimConfig configures a simulation.
type SimConfig struct {
	Prop     string
	Owned    map[string]bool // categories this check reports
	Verify   VerifyOpts
	Listener string // "" none | "full" recorder of everything | "spec" a restricted recorder (ListenerSpec)
	// ListenerSpec configures the primary world's recorder when Listener == "spec".
	ListenerSpec *SubSpec
	// CheckEvents compares the recorded events of every op with the model's expectation (C11).
	CheckEvents bool
	// CheckCache compares every registered filter with its original after every op (C07).
	CheckCache bool
	// Loop runs a second world on which batch operations are applied as loops of the single
	// operation (C08).
	Loop bool
	// NoListenerTwin runs a second world without listener; a legal call that panics only in
	// the world with the listener is attributed to the listener (C11).
	NoListenerTwin bool
	// CheckRelQueries queries every (relation component, target) pair through a
	// RelationFilter after every op and compares with the model (C05, C06).
	CheckRelQueries bool
	// RelQueriesRegistered additionally keeps those relation filters registered (from the first
	// time a pair is seen) and queries through the registered filter as well.
	RelQueriesRegistered bool
	// ScanRegistered iterates every registered filter after every op and checks the visited
	// set against the model (C03: "registered or not").
	ScanRegistered bool
	// FreshTwin: after every Reset a brand-new world with the same types, filters and listener
	// is created and driven in lock-step with the reset world (C15).
	FreshTwin bool
	// Trace records, after every op, everything the primary world returned (C13).
	Trace bool
	// TraceNoShape leaves the hidden-state digest (which names the registered types) out of the trace.
	TraceNoShape bool
	// OwnedIf can claim a finding of a category that is not owned unconditionally.
	OwnedIf func(s *Sim, f *Finding) bool
}

// Own builds an ownership set.
func Own(cats ...string) map[string]bool {
	m := map[string]bool{CatHarness: true}
	for _, c := range cats {
		m[c] = true
	}
	return m
}

// Replay is the replay file format of simulation-based checks.
type Replay struct {
	Property string    `json:"property"`
	Build    string    `json:"build"`
	Message  string    `json:"message"`
	Universe *Universe `json:"universe"`
	Ops      []Op      `json:"ops"`
	Extra    any       `json:"extra,omitempty"`
	// Listener is the drawn listener configuration of the case ("" none, "full" a recorder), for
	// checks whose base configuration leaves it open.
	Listener string `json:"listener,omitempty"`
}

// Sim drives one world (and optional twins) in lock-step with the model.
type Sim struct {
	T   Failer
	Cfg SimConfig
	M   *Model
	B   *WB
	L   *WB         // loop twin (C08), nil otherwise
	N   *WB         // twin without listener (C11), nil otherwise
	F   *WB         // fresh twin of the current reset segment (C15), nil before the first reset
	X   []*subWorld // lock-step worlds with restricted listeners (C12)
	// SubSpecs are the listener configurations of X (for the replay file).
	SubSpecs []SubSpec
	// RawDiverged: raw handles of the reset world and its fresh twin may legitimately differ
	// from now on (DESIGN 4.17).
	RawDiverged bool
	Ops         []Op
	Case        *Case
	St          *Stats

	Aborted bool // case ended because of an out-of-scope finding
	Failed  bool
	everTgt map[int]bool // ordinals that were ever assigned as a target (since reset)
	// TargetDied: the current op removed an entity that was ever a target.
	TargetDied bool
	// DeadTargets are ordinals that died while being a target (since reset).
	DeadTargets []int
	Step        int
	// Flags are facts about the last op, for labels and non-triviality rules.
	Flags map[string]int
	// Trace (if Cfg.Trace): one entry per op.
	Trace []string
	// LastQueryOrder is the order in which the last scripted query visited its entities.
	LastQueryOrder []ecs.Entity
	pendingEvents  []pendingEvent
	saved          *savedDump
	relRegs        map[string]*Compiled
	// ReplayExtra is stored in the replay file next to the ops.
	ReplayExtra any
	// QueryHook, if set, is called with the open query a Q variant returned, before it is iterated.
	QueryHook func(b *WB, q *ecs.Query) *Finding
}

// Flag records a fact about the current op.
func (s *Sim) Flag(name string, v int) {
	if s.Flags == nil {
		s.Flags = map[string]int{}
	}
	s.Flags[name] = v
}

// NewSim creates the worlds for universe u.
func NewSim(t Failer, cfg SimConfig, u *Universe, st *Stats, cs *Case) *Sim {
	s := &Sim{T: t, Cfg: cfg, M: NewModel(u), St: st, Case: cs, everTgt: map[int]bool{}}
	s.B = NewWB("world", u)
	if cfg.Loop {
		s.L = NewWB("loop-world", u)
	}
	if cfg.NoListenerTwin {
		s.N = NewWB("world-without-listener", u)
	}
	if cfg.Listener == "spec" && cfg.ListenerSpec != nil {
		l := s.B.newSubListener(*cfg.ListenerSpec, "world listener")
		s.B.Rec = l.rec
		s.B.W.SetListener(l.listener())
	} else if cfg.Listener != "" {
		s.B.InstallRecorder()
		if s.L != nil {
			s.L.InstallRecorder()
		}
	}
	return s
}

// Worlds returns all bindings; the twin without listener comes first so that a panic which
// also happens without listener is seen there first.
func (s *Sim) Worlds() []*WB {
	out := []*WB{}
	if s.F != nil {
		out = append(out, s.F)
	}
	if s.N != nil {
		out = append(out, s.N)
	}
	out = append(out, s.B)
	if s.L != nil {
		out = append(out, s.L)
	}
	for _, x := range s.X {
		out = append(out, x.b)
	}
	return out
}

// Report handles a finding: owned categories fail the test (after writing the replay file),
// others end the case.
func (s *Sim) Report(f *Finding) {
	if f == nil || s.Aborted || s.Failed {
		return
	}
	if s.Cfg.FreshTwin && f.Cat != CatHarness {
		switch {
		case strings.HasPrefix(f.Msg, "fresh-world:"):
			// the brand-new world shows it too: not a matter of Reset
			f = &Finding{Cat: "fresh-world-too:" + f.Cat, Msg: f.Msg}
		case s.F != nil && f.Cat != CatResetDiff:
			f = &Finding{Cat: CatResetDiff, Msg: "the reset world differs from a fresh world given the same operations: [" + f.Cat + "] " + f.Msg}
		}
	}
	if !s.Cfg.Owned[f.Cat] && !(s.Cfg.OwnedIf != nil && s.Cfg.OwnedIf(s, f)) {
		s.Aborted = true
		if s.St != nil {
			s.St.Count("discarded_out_of_scope:"+f.Cat, 1)
		}
		return
	}
	s.Failed = true
	msg := f.Error()
	if len(s.Ops) > 0 {
		msg += " (after op " + fmt.Sprint(len(s.Ops)-1) + ": " + s.Ops[len(s.Ops)-1].Describe() + ")"
	}
	extra := s.ReplayExtra
	if len(s.SubSpecs) > 0 {
		extra = s.SubSpecs
	}
	WriteFail(&Replay{Property: s.Cfg.Prop, Build: BuildName(), Message: msg, Universe: s.M.U, Ops: s.Ops, Extra: extra, Listener: s.Cfg.Listener})
	if f.Cat == CatHarness {
		s.T.Fatalf("HARNESS-BUG %s: %s", s.Cfg.Prop, msg)
	}
	s.T.Fatalf("%s violated: %s", s.Cfg.Prop, msg)
}

// Done reports whether the case should stop.
func (s *Sim) Done() bool { return s.Aborted || s.Failed }

func (s *Sim) label(l string) {
	if s.Case != nil {
		s.Case.Label(l)
	}
}

// VerifyAll compares every world with the model.
func (s *Sim) VerifyAll() {
	for _, b := range s.Worlds() {
		if s.Done() {
			return
		}
		// observables first; then the hidden-state invariants. A broken invariant of a category
		// this check does not own is only counted: the case goes on, so that its observable
		// consequence (if any) can still surface under a category that is owned.
		o := s.Cfg.Verify
		hooks := o.Hooks
		o.Hooks = false
		s.Report(classify(b.Verify(s.M, o)))
		if hooks && !s.Done() {
			if err := CheckInvariants(b.W); err != nil {
				f := classify(fmt.Errorf("%s: structural invariant broken: %v", b.Name, err))
				if s.Cfg.Owned[f.Cat] || (s.Cfg.OwnedIf != nil && s.Cfg.OwnedIf(s, f)) {
					s.Report(f)
				} else if s.St != nil {
					s.St.Count("unowned_invariant_ignored:"+f.Cat, 1)
				}
			}
		}
	}
	if n := len(s.B.W.Stats().Nodes); n > 32 {
		s.label("more than 32 archetype nodes")
		if n > 64 {
			s.label("more than 64 archetype nodes")
		}
	}
	if s.Cfg.CheckCache && !s.Done() {
		s.checkCache()
	}
	if s.Cfg.CheckRelQueries && !s.Done() {
		s.checkRelQueries()
	}
	if s.Cfg.ScanRegistered && !s.Done() {
		for _, b := range s.Worlds() {
			for slot, c := range b.Regs {
				if c == nil {
					continue
				}
				if fd := s.RunQueryScript(b, c, &Op{K: OpQuery, Reg: true, Slot: slot}); fd != nil {
					s.Report(fd)
					return
				}
			}
		}
	}
}

// panicClass maps an op to the category a panic of its legal form belongs to.
func (s *Sim) panicClass(op *Op) string {
	if op.Reg {
		return CatPanicCached
	}
	switch op.K {
	case OpNew, OpNewWith:
		return CatPanicCreate
	case OpBuildNew, OpBuildBatch:
		if op.T != TNone {
			return CatPanicRelation
		}
		if op.K == OpBuildBatch {
			return CatPanicBatch
		}
		return CatPanicCreate
	case OpRemoveEnt:
		if s.everTgt[op.E] {
			return CatPanicTarget
		}
		return CatPanicCreate
	case OpRemoveEnts:
		return CatPanicTarget // decided by the caller when no target is involved
	case OpAdd, OpRemove, OpExchange, OpAssign, OpSet, OpWriteGet, OpWriteQuery:
		return CatPanicMove
	case OpBuildAdd:
		if op.T != TNone {
			return CatPanicRelation
		}
		return CatPanicMove
	case OpRelExchange, OpRelSet:
		return CatPanicRelation
	case OpBatchAdd, OpBatchRemove, OpBatchExch, OpBatchSetRel, OpRelExchB:
		return CatPanicBatch
	case OpQuery:
		return CatPanicQuery
	case OpRegister, OpUnregister:
		return CatPanicCached
	case OpReset:
		return CatPanicReset
	}
	return CatPanicMove
}

// Apply executes one op on model and world(s) and verifies.
func (s *Sim) Apply(op Op) {
	if s.Done() {
		return
	}
	s.Ops = append(s.Ops, op)
	if s.Case != nil {
		s.Case.Feed(op.Describe())
	}
	if op.GC {
		runtime.GC()
	}
	for _, b := range s.Worlds() {
		if b.Rec != nil {
			b.Rec.Begin()
		}
	}
	for _, x := range s.X {
		for _, l := range x.subs {
			l.rec.Begin()
		}
	}
	o := &s.Ops[len(s.Ops)-1]
	s.TargetDied = false
	s.Flags = nil
	s.pendingEvents = nil
	s.LastQueryOrder = nil
	s.Step++
	prevHandles := len(s.B.H)
	if o.K == OpReset {
		prevHandles = 0
	}
	s.dispatch(o)
	// the call is over (queries closed, events delivered): the caller reuses its argument buffers
	for _, b := range s.Worlds() {
		b.ScribbleArgs()
	}
	for _, x := range s.X {
		x.b.ScribbleArgs()
	}
	if s.Done() {
		return
	}
	if s.Cfg.Trace {
		s.Trace = append(s.Trace, s.traceStep(o, prevHandles))
	}
	if s.Cfg.FreshTwin {
		s.checkFreshHandles(o, prevHandles)
	}
	s.checkSubscriptions(o)
	if s.Done() {
		return
	}
	s.VerifyAll()
	s.flushEvents()
}

// applyInner runs an op that is part of another op (lock episodes) without booking it.
func (s *Sim) applyInner(o *Op) { s.dispatch(o) }

// dispatch executes one op.
func (s *Sim) dispatch(o *Op) {
	switch o.K {
	case OpDumpLoad:
		s.doDumpLoad(o)
	case OpDumpSave:
		s.doDumpSave(o)
	case OpDumpRestore:
		s.doDumpRestore(o)
	case OpResAdd, OpResRemove:
		s.doResource(o)
	case OpDeadRead:
		s.doDeadRead(o)
	case OpCacheIll:
		s.doCacheIll(o)
	case OpTypeLimit:
		s.doTypeLimit(o)
	case OpLockEpisode:
		s.doLockEpisode(o)
	case OpLockDuring:
		s.doLockDuring(o)
	case OpLockLimit:
		s.doLockLimit(o)
	case OpRegisterNew:
		s.doRegisterNew(o)
	case OpAddListener:
		s.doAddListener(o)
	case OpFanout:
		// many targets in one relation node (more tables than a storage page holds)
		for i := 0; i < o.N && !s.Done(); i++ {
			par := Op{K: OpNew, Add: o.Add, T: TNone}
			s.dispatch(&par)
			if s.Done() {
				return
			}
			ch := Op{K: OpBuildNew, Add: o.Rem, Rel: true, C: o.C, T: len(s.M.Ents) - 1, N: 1}
			s.dispatch(&ch)
		}
		s.label("fanout: > 32 targets in one node")
	case OpLockedRegistration:
		s.doLockedRegistration(o)
	case OpNew, OpNewWith, OpBuildNew:
		s.doCreate(o)
	case OpBuildBatch:
		s.doCreateBatch(o)
	case OpRemoveEnt:
		s.doRemoveEntity(o)
	case OpAdd, OpRemove, OpExchange, OpAssign, OpBuildAdd, OpRelExchange:
		s.doExchange(o)
	case OpSet, OpWriteGet:
		s.doWrite(o)
	case OpWriteQuery:
		s.doWriteQuery(o)
	case OpRelSet:
		s.doRelSet(o)
	case OpBatchAdd, OpBatchRemove, OpBatchExch, OpRelExchB, OpBatchSetRel, OpRemoveEnts:
		s.doBatch(o)
	case OpQuery:
		s.doQuery(o)
	case OpRegister:
		s.doRegister(o)
	case OpUnregister:
		s.doUnregister(o)
	case OpReset:
		s.doReset(o)
	case OpGC:
		runtime.GC()
	default:
		s.Report(finding(CatHarness, "unknown op kind %q", o.K))
	}
}

// expectPanic handles the outcome of a call the model declares illegal. Returns true if the
// case may continue.
func (s *Sim) afterIllegal(o *Op, b *WB, why *Illegal, p any, shapeBefore string, single bool) {
	cat := CatIllegal
	if strings.Contains(why.Why, "dead relation target") {
		cat = CatDeadTarget
	}
	if p == nil {
		s.Report(finding(cat, "%s: illegal call did not panic (%s): %s", b.Name, why.Why, o.Describe()))
		return
	}
	if !single {
		// batch failures are not atomic (DESIGN 4.8): only the panic is required. The case
		// goes on if the world still equals the (unchanged) model, and ends quietly otherwise.
		// But no query is open after the panic, so the world must not be locked (C09).
		if b.W.IsLocked() {
			s.Report(finding(CatLock, "%s: a batch call that panicked (%s) left the world locked although no query is open: %s", b.Name, why.Why, o.Describe()))
			return
		}
		// ... and whatever part of the batch was applied, the world is still a consistent one: every
		// entity a query visits is alive and visited once, the counts agree, the structural
		// invariants hold
		if msg := b.consistent(); msg != "" {
			s.Report(finding(CatCorrupt, "%s: after a batch call panicked (%s) and the caller recovered, the world is corrupt: %s: %s", b.Name, why.Why, msg, o.Describe()))
			return
		}
		nh := FullVerify
		nh.Hooks = false
		if err := b.Verify(s.M, nh); err != nil {
			s.Aborted = true
			if s.St != nil {
				s.St.Count("ended_after_illegal_batch", 1)
			}
		}
		return
	}
	// single-entity operation: nothing may have changed. The model is unchanged, so a full
	// comparison with it shows every observable is as before. (A broken hidden-state invariant
	// is not necessarily the work of this call: it is judged by the regular verification.)
	noHooks := FullVerify
	noHooks.Hooks = false
	if err := b.Verify(s.M, noHooks); err != nil {
		s.Report(finding(cat, "%s: rejected call changed the world (%s): %v", b.Name, why.Why, err))
		return
	}
	if HooksEnabled && shapeBefore != "" {
		if pb, pa := poolLine(shapeBefore), poolLine(Shape(b.W)); pb != pa {
			s.Report(finding(cat, "%s: rejected call changed the entity pool (future handles): before %q after %q", b.Name, pb, pa))
		}
	}
	if b.W.IsLocked() {
		s.Report(finding(cat, "%s: rejected call left the world locked", b.Name))
	}
}

func poolLine(shape string) string {
	i := strings.Index(shape, "pool len=")
	if i < 0 {
		return ""
	}
	rest := shape[i:]
	// two lines: header and the id list
	n := 0
	for j, c := range rest {
		if c == '\n' {
			n++
			if n == 2 {
				return rest[:j]
			}
		}
	}
	return rest
}

func (s *Sim) shapeIf(o *Op, b *WB) string {
	if o.Ill != "" && HooksEnabled {
		return Shape(b.W)
	}
	return ""
}

// unexpectedPanic reports a panic of a call the model declares legal.
func (s *Sim) unexpectedPanic(o *Op, b *WB, p any, cat string) {
	if s.N != nil && b != s.N && b.Rec != nil {
		cat = CatPanicListener // the same call did not panic in the world without listener
	}
	if msg := fmt.Sprint(p); strings.Contains(msg, "unbalanced unlock") || strings.Contains(msg, "locked world") || strings.Contains(msg, "run out of the maximum") {
		// no query is open between ops: the lock bookkeeping itself is wrong
		cat = CatLock
	}
	s.Report(finding(cat, "%s: legal call panicked: %v: %s", b.Name, p, o.Describe()))
}

// noteDeath books the death of an entity that was ever a target.
func (s *Sim) noteDeath(ord int) {
	if s.everTgt[ord] {
		s.TargetDied = true
		s.DeadTargets = append(s.DeadTargets, ord)
		s.label("a relation target died")
	}
}

// sanity cross-checks the generator against the model's legality verdict.
func (s *Sim) sanity(o *Op, ill *Illegal) bool {
	if o.Ill == "" && ill != nil {
		s.Report(finding(CatHarness, "generator produced an op the model declares illegal (%s): %s", ill.Why, o.Describe()))
		return false
	}
	if o.Ill != "" && ill == nil {
		s.Report(finding(CatHarness, "illegal-op generator (%s) produced an op the model declares legal: %s", o.Ill, o.Describe()))
		return false
	}
	return true
}

// noteTarget books that ord was assigned as a target.
func (s *Sim) noteTarget(t int) {
	if t >= 0 {
		s.everTgt[t] = true
	}
}

// ---------------------------------------------------------------------------------------------
// creation

func (s *Sim) createVals(o *Op) map[int][]byte {
	vals := map[int][]byte{}
	if o.K == OpNewWith || o.Vals {
		for i, c := range o.Add {
			var tok uint32
			if i < len(o.Tok) {
				tok = o.Tok[i]
			}
			vals[c] = Expand(tok, s.M.U.Spec(c).Size)
		}
	}
	return vals
}

// builder constructs the ecs.Builder an op describes.
func (b *WB) builder(o *Op) *ecs.Builder {
	var bl *ecs.Builder
	if o.Vals {
		bl = ecs.NewBuilderWith(b.W, b.Comps(o.Add, o.Tok)...)
	} else {
		// builders from IDs are long-lived helper objects: one per (component list, relation), made at
		// first use and reused for the rest of the world's life, also across Reset. (The ID list
		// handed to NewBuilder stays with the builder, so it is not among the scribbled arguments.)
		key := fmt.Sprint(o.Add, o.Rel, o.C)
		if bl, ok := b.builders[key]; ok {
			return bl
		}
		ids := make([]ecs.ID, len(o.Add))
		for i, c := range o.Add {
			ids[i] = b.IDs[c]
		}
		bl = ecs.NewBuilder(b.W, ids...)
		if o.Rel {
			bl = bl.WithRelation(b.IDs[o.C])
		}
		if b.builders == nil {
			b.builders = map[string]*ecs.Builder{}
		}
		b.builders[key] = bl
		return bl
	}
	if o.Rel {
		bl = bl.WithRelation(b.IDs[o.C])
	}
	return bl
}

func (s *Sim) legalCreate(o *Op) (EntState, *Illegal) {
	hasTarget := (o.K == OpBuildNew || o.K == OpBuildBatch) && o.T != TNone
	if hasTarget && !o.Rel {
		return EntState{}, illegal("target given but the builder has no relation")
	}
	if o.K == OpBuildBatch && o.N < 1 {
		return EntState{}, illegal("non-positive batch count %d", o.N)
	}
	return s.M.CreateState(o.Add, hasTarget, o.C, o.T)
}

func (s *Sim) doCreate(o *Op) {
	st, ill := s.legalCreate(o)
	if !s.sanity(o, ill) {
		return
	}
	var handles []ecs.Entity
	for _, b := range s.Worlds() {
		var h ecs.Entity
		shape := s.shapeIf(o, b)
		p := Call(func() {
			switch o.K {
			case OpNew:
				h = b.W.NewEntity(b.MapIDs(o.Add)...)
			case OpNewWith:
				h = b.W.NewEntityWith(b.Comps(o.Add, o.Tok)...)
			case OpBuildNew:
				bl := b.builder(o)
				if o.T != TNone {
					h = bl.New(b.Handle(o.T))
				} else {
					h = bl.New()
				}
			}
		})
		if ill != nil {
			s.afterIllegal(o, b, ill, p, shape, true)
			if s.Done() {
				return
			}
			continue
		}
		if p != nil {
			s.unexpectedPanic(o, b, p, s.panicClass(o))
			return
		}
		handles = append(handles, h)
	}
	if ill != nil {
		return
	}
	addIDs := append([]int{}, o.Add...)
	chs := s.M.Create(st, s.createVals(o), 1, addIDs)
	if st.Target >= 0 {
		s.noteTarget(st.Target)
	}
	for i, b := range s.Worlds() {
		if err := b.Bind(handles[i : i+1]); err != nil {
			s.Report(classify(err))
			return
		}
	}
	s.checkEvents(o, chs)
}

func (s *Sim) doCreateBatch(o *Op) {
	st, ill := s.legalCreate(o)
	if !s.sanity(o, ill) {
		return
	}
	type res struct{ hs []ecs.Entity }
	results := []res{}
	for _, b := range s.Worlds() {
		loop := b == s.L // the loop twin creates one by one
		var hs []ecs.Entity
		var qerr *Finding
		p := Call(func() {
			if loop && ill == nil {
				for i := 0; i < o.N; i++ {
					bl := b.builder(o)
					if o.T != TNone {
						hs = append(hs, bl.New(b.Handle(o.T)))
					} else {
						hs = append(hs, bl.New())
					}
				}
				return
			}
			bl := b.builder(o)
			if o.Q {
				var q ecs.Query
				if o.T != TNone {
					q = bl.NewBatchQ(o.N, b.Handle(o.T))
				} else {
					q = bl.NewBatchQ(o.N)
				}
				hs, qerr = s.drainCreateQuery(o, b, &q, st)
			} else {
				if o.T != TNone {
					bl.NewBatch(o.N, b.Handle(o.T))
				} else {
					bl.NewBatch(o.N)
				}
				hs = b.NewHandles()
			}
		})
		if ill != nil {
			// a refused batch CREATION has created nothing (the counts of C02 and the event stream of
			// C11 know of no such entities): judged like a single-entity call
			s.afterIllegal(o, b, ill, p, "", true)
			if p == nil || s.Done() {
				return
			}
			continue
		}
		if p != nil {
			s.unexpectedPanic(o, b, p, s.panicClass(o))
			return
		}
		if qerr != nil {
			s.Report(qerr)
			return
		}
		if len(hs) != o.N {
			s.Report(finding(CatBatchDiff, "%s: batch creation of %d entities produced %d new entities", b.Name, o.N, len(hs)))
			return
		}
		results = append(results, res{hs})
	}
	if ill != nil {
		return
	}
	chs := s.M.Create(st, s.createVals(o), o.N, append([]int{}, o.Add...))
	if st.Target >= 0 {
		s.noteTarget(st.Target)
	}
	for i, b := range s.Worlds() {
		if err := b.Bind(results[i].hs); err != nil {
			s.Report(classify(err))
			return
		}
	}
	s.checkEvents(o, chs)
}

// drainCreateQuery iterates the query returned by NewBatchQ: exactly N new entities, each with
// the created components accessible.
func (s *Sim) drainCreateQuery(o *Op, b *WB, q *ecs.Query, st EntState) ([]ecs.Entity, *Finding) {
	if c := q.Count(); c != o.N {
		q.Close()
		return nil, finding(CatBatchQuery, "%s: NewBatchQ(%d) query counts %d", b.Name, o.N, c)
	}
	if !b.W.IsLocked() {
		q.Close()
		return nil, finding(CatLock, "%s: world not locked while the NewBatchQ query is open", b.Name)
	}
	if s.QueryHook != nil {
		if fd := s.QueryHook(b, q); fd != nil {
			q.Close()
			return nil, fd
		}
	}
	at := make([]ecs.Entity, o.N)
	for i := range at {
		at[i] = q.EntityAt(i)
	}
	vals := s.createVals(o)
	hs := []ecs.Entity{}
	seen := map[ecs.Entity]bool{}
	for q.Next() {
		if k := len(hs); k < len(at) && at[k] != q.Entity() {
			q.Close()
			return nil, finding(CatBatchQuery, "%s: NewBatchQ query: EntityAt(%d)=%v, the %d-th visited entity is %v", b.Name, k, at[k], k, q.Entity())
		}
		if b.Rec != nil && len(b.Rec.Cur) > 0 {
			q.Close()
			return nil, finding(CatEvents, "%s: %d events delivered while the NewBatchQ query is still open", b.Name, len(b.Rec.Cur))
		}
		h := q.Entity()
		if _, known := b.Ord[h]; known || seen[h] {
			q.Close()
			return nil, finding(CatBatchQuery, "%s: NewBatchQ query yields %v which is not a new entity (or twice)", b.Name, h)
		}
		seen[h] = true
		hs = append(hs, h)
		for c := 0; c < b.U.N(); c++ {
			has := st.Has(c)
			if q.Has(b.IDs[c]) != has {
				q.Close()
				return nil, finding(CatBatchQuery, "%s: NewBatchQ query: Has(comp %d)=%v at a new entity, want %v", b.Name, c, !has, has)
			}
			if has {
				sp := b.U.Spec(c)
				want := make([]byte, sp.Size)
				if v, ok := vals[c]; ok {
					want = sp.Masked(v)
				}
				p := q.Get(b.IDs[c])
				if p == nil {
					q.Close()
					return nil, finding(CatBatchQuery, "%s: NewBatchQ query: Get(comp %d) is nil at a new entity", b.Name, c)
				}
				if got := sp.Masked(sp.ReadBytes(p)); !bytes.Equal(got, want) {
					q.Close()
					return nil, finding(CatBatchQuery, "%s: NewBatchQ query: comp %d of a new entity reads %x, want %x", b.Name, c, got, want)
				}
			}
		}
		if rc := s.M.RelOf(st.Comps); rc >= 0 {
			if got, want := q.Relation(b.IDs[rc]), b.Handle(st.Target); got != want {
				q.Close()
				return nil, finding(CatBatchQuery, "%s: NewBatchQ query: Relation=%v, want %v", b.Name, got, want)
			}
		}
	}
	if b.W.IsLocked() && LockCount(b.W) != 0 {
		return nil, finding(CatLock, "%s: world still locked after the NewBatchQ query was exhausted", b.Name)
	}
	return hs, nil
}

// ---------------------------------------------------------------------------------------------
// removal

func (s *Sim) doRemoveEntity(o *Op) {
	var ill *Illegal
	if o.E < 0 || o.E >= len(s.M.Ents) || !s.M.Ents[o.E].Alive {
		ill = illegal("entity #%d is not alive", o.E)
	}
	if !s.sanity(o, ill) {
		return
	}
	for _, b := range s.Worlds() {
		shape := s.shapeIf(o, b)
		p := Call(func() { b.W.RemoveEntity(b.Handle(o.E)) })
		if ill != nil {
			s.afterIllegal(o, b, ill, p, shape, true)
			if s.Done() {
				return
			}
			continue
		}
		if p != nil {
			s.unexpectedPanic(o, b, p, s.panicClass(o))
			return
		}
	}
	if ill != nil {
		return
	}
	ch := s.M.Remove(o.E)
	s.noteDeath(o.E)
	s.checkEvents(o, []Change{ch})
}

// ---------------------------------------------------------------------------------------------
// single-entity structural changes

// exchangeArgs normalises the op kinds that are exchanges.
func exchangeArgs(o *Op) (add, rem []int, hasRel bool) {
	switch o.K {
	case OpAdd, OpAssign:
		return o.Add, nil, false
	case OpRemove:
		return nil, o.Rem, false
	case OpExchange:
		return o.Add, o.Rem, false
	case OpBuildAdd:
		return o.Add, nil, o.T != TNone
	case OpRelExchange:
		return o.Add, o.Rem, true
	}
	return nil, nil, false
}

func (s *Sim) legalExchange(o *Op, cur EntState) (EntState, bool, *Illegal) {
	add, rem, hasRel := exchangeArgs(o)
	if o.K == OpBuildAdd && o.T != TNone && !o.Rel {
		return cur, false, illegal("target given but the builder has no relation")
	}
	if (o.K == OpAssign || (o.K == OpBuildAdd && o.Vals)) && len(add) == 0 {
		return cur, false, illegal("assign without components")
	}
	return s.M.ExchangeState(cur, add, rem, hasRel, o.C, o.T)
}

func (b *WB) execExchange(o *Op) {
	e := b.Handle(o.E)
	switch o.K {
	case OpAdd:
		b.W.Add(e, b.MapIDs(o.Add)...)
	case OpRemove:
		b.W.Remove(e, b.MapIDs(o.Rem)...)
	case OpExchange:
		b.W.Exchange(e, b.MapIDs(o.Add), b.MapIDs(o.Rem))
	case OpAssign:
		b.W.Assign(e, b.Comps(o.Add, o.Tok)...)
	case OpBuildAdd:
		bl := b.builder(o)
		if o.T != TNone {
			bl.Add(e, b.Handle(o.T))
		} else {
			bl.Add(e)
		}
	case OpRelExchange:
		b.W.Relations().Exchange(e, b.MapIDs(o.Add), b.MapIDs(o.Rem), b.IDs[o.C], b.Handle(o.T))
	}
}

func (s *Sim) doExchange(o *Op) {
	var ill *Illegal
	var next EntState
	var effective bool
	if o.E < 0 || o.E >= len(s.M.Ents) || !s.M.Ents[o.E].Alive {
		ill = illegal("entity #%d is not alive", o.E)
	} else {
		next, effective, ill = s.legalExchange(o, s.M.Ents[o.E].EntState)
	}
	if !s.sanity(o, ill) {
		return
	}
	for _, b := range s.Worlds() {
		shape := s.shapeIf(o, b)
		p := Call(func() { b.execExchange(o) })
		if ill != nil {
			s.afterIllegal(o, b, ill, p, shape, true)
			if s.Done() {
				return
			}
			continue
		}
		if p != nil {
			cat := s.panicClass(o)
			if !effective && b.Rec != nil {
				cat = CatPanicListener
			}
			s.unexpectedPanic(o, b, p, cat)
			return
		}
	}
	if ill != nil || !effective {
		if ill == nil {
			s.checkEvents(o, nil)
		}
		return
	}
	vals := map[int][]byte{}
	if o.K == OpAssign || (o.K == OpBuildAdd && o.Vals) {
		vals = s.createVals(&Op{K: OpNewWith, Add: o.Add, Tok: o.Tok})
	}
	add, rem, hasRel := exchangeArgs(o)
	ch := s.M.SetState(o.E, next, vals, append([]int{}, add...), append([]int{}, rem...))
	if hasRel {
		s.noteTarget(o.T)
	}
	s.checkEvents(o, []Change{ch})
}

// doWrite: World.Set and writes through the Get pointer.
func (s *Sim) doWrite(o *Op) {
	var ill *Illegal
	if o.E < 0 || o.E >= len(s.M.Ents) || !s.M.Ents[o.E].Alive {
		ill = illegal("entity #%d is not alive", o.E)
	} else if !s.M.Ents[o.E].Has(o.C) {
		ill = illegal("entity #%d has no component %d", o.E, o.C)
	}
	if !s.sanity(o, ill) {
		return
	}
	sp := s.M.U.Spec(o.C)
	var tok uint32
	if len(o.Tok) > 0 {
		tok = o.Tok[0]
	}
	val := Expand(tok, sp.Size)
	for _, b := range s.Worlds() {
		shape := s.shapeIf(o, b)
		p := Call(func() {
			h := b.Handle(o.E)
			switch {
			case o.K == OpSet:
				ptr := b.W.Set(h, b.IDs[o.C], sp.NewValue(val))
				if ptr != b.W.Get(h, b.IDs[o.C]) {
					panic("harness: Set did not return the pointer to the assigned memory")
				}
			case o.V == 1:
				sp.WriteBytes(b.W.GetUnchecked(h, b.IDs[o.C]), val)
			default:
				sp.WriteBytes(b.W.Get(h, b.IDs[o.C]), val)
			}
		})
		if ill != nil {
			if o.K != OpSet {
				// a write through a nil/invalid pointer is the harness' own fault, never generated
				s.Report(finding(CatHarness, "illegal pointer write generated: %s", o.Describe()))
				return
			}
			s.afterIllegal(o, b, ill, p, shape, true)
			if s.Done() {
				return
			}
			continue
		}
		if p != nil {
			s.unexpectedPanic(o, b, p, s.panicClass(o))
			return
		}
	}
	if ill != nil {
		return
	}
	s.M.SetVal(o.E, o.C, val)
	s.checkEvents(o, nil)
}

// doWriteQuery writes component C of entity E through Query.Get while iterating All(C).
func (s *Sim) doWriteQuery(o *Op) {
	if o.E < 0 || o.E >= len(s.M.Ents) || !s.M.Ents[o.E].Alive || !s.M.Ents[o.E].Has(o.C) {
		s.Report(finding(CatHarness, "illegal query write generated: %s", o.Describe()))
		return
	}
	sp := s.M.U.Spec(o.C)
	var tok uint32
	if len(o.Tok) > 0 {
		tok = o.Tok[0]
	}
	val := Expand(tok, sp.Size)
	for _, b := range s.Worlds() {
		found := false
		p := Call(func() {
			q := b.W.Query(ecs.All(b.IDs[o.C]))
			for q.Next() {
				if q.Entity() == b.Handle(o.E) {
					sp.WriteBytes(q.Get(b.IDs[o.C]), val)
					found = true
				}
			}
		})
		if p != nil {
			s.unexpectedPanic(o, b, p, CatPanicQuery)
			return
		}
		if !found {
			s.Report(finding(CatScan, "%s: Query(All(comp %d)) does not visit #%d which has the component", b.Name, o.C, o.E))
			return
		}
	}
	s.M.SetVal(o.E, o.C, val)
	s.checkEvents(o, nil)
}

func (s *Sim) doRelSet(o *Op) {
	var ill *Illegal
	switch {
	case o.E < 0 || o.E >= len(s.M.Ents) || !s.M.Ents[o.E].Alive:
		ill = illegal("entity #%d is not alive", o.E)
	case !s.M.TargetOK(o.T):
		ill = illegal("dead relation target #%d", o.T)
	case !s.M.Ents[o.E].Has(o.C):
		ill = illegal("entity #%d has no component %d", o.E, o.C)
	case !s.M.U.IsRel(o.C):
		ill = illegal("component %d is not a relation", o.C)
	}
	if !s.sanity(o, ill) {
		return
	}
	for _, b := range s.Worlds() {
		shape := s.shapeIf(o, b)
		p := Call(func() { b.W.Relations().Set(b.Handle(o.E), b.IDs[o.C], b.Handle(o.T)) })
		if ill != nil {
			s.afterIllegal(o, b, ill, p, shape, true)
			if s.Done() {
				return
			}
			continue
		}
		if p != nil {
			s.unexpectedPanic(o, b, p, s.panicClass(o))
			return
		}
	}
	if ill != nil {
		return
	}
	cur := s.M.Ents[o.E].EntState
	if cur.Target == o.T {
		s.checkEvents(o, nil)
		return
	}
	next := cur
	next.Target = o.T
	ch := s.M.SetState(o.E, next, nil, nil, nil)
	s.noteTarget(o.T)
	s.checkEvents(o, []Change{ch})
}

// ---------------------------------------------------------------------------------------------
// batch operations

// QuerySet runs a query and returns the ordinals it yields.
func (b *WB) QuerySet(f ecs.Filter) ([]int, *Finding) {
	out := []int{}
	seen := map[int]bool{}
	var fd *Finding
	p := Call(func() {
		q := b.W.Query(f)
		for q.Next() {
			h := q.Entity()
			ord, ok := b.Ord[h]
			if !ok {
				fd = finding(CatScan, "%s: query yields %v which was never issued", b.Name, h)
				q.Close()
				return
			}
			if seen[ord] {
				fd = finding(CatScan, "%s: query yields #%d twice", b.Name, ord)
				q.Close()
				return
			}
			seen[ord] = true
			out = append(out, ord)
		}
	})
	if p != nil {
		return nil, finding(CatPanicQuery, "%s: query panicked: %v", b.Name, p)
	}
	return out, fd
}

// entityAtSet: Query.Count and Query.EntityAt(i) for every index of a fresh query through c select
// the entities in want (the ones iteration yielded), each at exactly one index.
func (b *WB) entityAtSet(c *Compiled, want []int) *Finding {
	var fd *Finding
	p := Call(func() {
		q := b.W.Query(c.Flt)
		defer q.Close()
		n := q.Count()
		if n != len(want) {
			fd = finding(CatScan, "%s: Count() of a query with filter %s = %d, iteration yields %d entities", b.Name, c.F.String(), n, len(want))
			return
		}
		ws := asSet(want)
		seen := map[int]bool{}
		for i := 0; i < n; i++ {
			h := q.EntityAt(i)
			ord, ok := b.Ord[h]
			if !ok || !ws[ord] || seen[ord] {
				fd = finding(CatScan, "%s: EntityAt(%d) of a query with filter %s (Count %d) = %v (#%d, known %v, seen before %v); iteration yields %v", b.Name, i, c.F.String(), n, h, ord, ok, seen[ord], sortedCopy(want))
				return
			}
			seen[ord] = true
		}
	})
	if p != nil {
		return finding(CatPanicQuery, "%s: Count/EntityAt of a query with filter %s panicked: %v", b.Name, c.F.String(), p)
	}
	return fd
}

func asSet(v []int) map[int]bool {
	m := map[int]bool{}
	for _, x := range v {
		m[x] = true
	}
	return m
}

func sortedCopy(v []int) []int {
	c := append([]int{}, v...)
	sort.Ints(c)
	return c
}

// checkSelection validates a selected set against the model's verdicts.
func (s *Sim) checkSelection(b *WB, c *Compiled, got []int, what string) *Finding {
	yes, dc := b.Expect(c, s.M)
	gs := asSet(got)
	for _, y := range yes {
		if !gs[y] {
			return finding(CatScan, "%s: %s with filter %s misses #%d (selected %v, must select %v)", b.Name, what, c.F.String(), y, sortedCopy(got), yes)
		}
	}
	ok := asSet(yes)
	for _, d := range dc {
		ok[d] = true
	}
	for _, g := range got {
		if !ok[g] {
			return finding(CatScan, "%s: %s with filter %s selects #%d which does not match (must select %v, may select %v)", b.Name, what, c.F.String(), g, yes, dc)
		}
	}
	return nil
}

// compiledFor returns the compiled filter of a batch/query op: the registered one in a slot,
// or a fresh compilation of the op's expression.
func (s *Sim) compiledFor(o *Op, b *WB) *Compiled {
	if o.Reg {
		if o.Slot < 0 || o.Slot >= len(b.Regs) || b.Regs[o.Slot] == nil {
			return nil
		}
		return b.Regs[o.Slot]
	}
	return b.Compile(o.F)
}

// batchLegal computes, per selected entity, the next state; returns an *Illegal if the call is
// illegal for some selected entity (generators avoid that except on purpose).
func (s *Sim) batchNext(o *Op, sel []int) (map[int]EntState, *Illegal) {
	next := map[int]EntState{}
	switch o.K {
	case OpRemoveEnts:
		return next, nil
	case OpBatchSetRel:
		if !s.M.TargetOK(o.T) {
			return nil, illegal("dead relation target #%d", o.T)
		}
		for _, ord := range sel {
			cur := s.M.Ents[ord].EntState
			if !cur.Has(o.C) {
				return nil, illegal("entity #%d has no component %d", ord, o.C)
			}
			if !s.M.U.IsRel(o.C) {
				return nil, illegal("component %d is not a relation", o.C)
			}
			if cur.Target == o.T {
				next[ord] = cur // skipped by the documentation: "already have the desired target"
				continue
			}
			n := cur
			n.Target = o.T
			next[ord] = n
		}
		return next, nil
	}
	var add, rem []int
	hasRel := false
	switch o.K {
	case OpBatchAdd:
		add = o.Add
	case OpBatchRemove:
		rem = o.Rem
	case OpBatchExch:
		add, rem = o.Add, o.Rem
	case OpRelExchB:
		add, rem, hasRel = o.Add, o.Rem, true
	}
	if len(add) == 0 && len(rem) == 0 && hasRel {
		return nil, illegal("exchange without components but with a relation target")
	}
	if hasRel && !s.M.TargetOK(o.T) && len(sel) > 0 {
		return nil, illegal("dead relation target #%d", o.T)
	}
	for _, ord := range sel {
		n, _, ill := s.M.ExchangeState(s.M.Ents[ord].EntState, add, rem, hasRel, o.C, o.T)
		if ill != nil {
			return nil, ill
		}
		next[ord] = n
	}
	return next, nil
}

func (b *WB) execBatch(o *Op, f ecs.Filter) (int, *ecs.Query) {
	bt := b.W.Batch()
	rl := b.W.Relations()
	switch o.K {
	case OpRemoveEnts:
		return bt.RemoveEntities(f), nil
	case OpBatchAdd:
		if o.Q {
			q := bt.AddQ(f, b.MapIDs(o.Add)...)
			return -1, &q
		}
		return bt.Add(f, b.MapIDs(o.Add)...), nil
	case OpBatchRemove:
		if o.Q {
			q := bt.RemoveQ(f, b.MapIDs(o.Rem)...)
			return -1, &q
		}
		return bt.Remove(f, b.MapIDs(o.Rem)...), nil
	case OpBatchExch:
		if o.Q {
			q := bt.ExchangeQ(f, b.MapIDs(o.Add), b.MapIDs(o.Rem))
			return -1, &q
		}
		return bt.Exchange(f, b.MapIDs(o.Add), b.MapIDs(o.Rem)), nil
	case OpRelExchB:
		if o.Q {
			q := rl.ExchangeBatchQ(f, b.MapIDs(o.Add), b.MapIDs(o.Rem), b.IDs[o.C], b.Handle(o.T))
			return -1, &q
		}
		return rl.ExchangeBatch(f, b.MapIDs(o.Add), b.MapIDs(o.Rem), b.IDs[o.C], b.Handle(o.T)), nil
	case OpBatchSetRel:
		if o.V == 1 {
			if o.Q {
				q := rl.SetBatchQ(f, b.IDs[o.C], b.Handle(o.T))
				return -1, &q
			}
			return rl.SetBatch(f, b.IDs[o.C], b.Handle(o.T)), nil
		}
		if o.Q {
			q := bt.SetRelationQ(f, b.IDs[o.C], b.Handle(o.T))
			return -1, &q
		}
		return bt.SetRelation(f, b.IDs[o.C], b.Handle(o.T)), nil
	}
	panic("harness: not a batch op: " + o.K)
}

// execLoop applies the single-entity operation the batch call documents as its equivalent to
// every selected entity (C08's right-hand side).
func (b *WB) execLoop(o *Op, sel []int) {
	for _, ord := range sel {
		e := b.Handle(ord)
		switch o.K {
		case OpRemoveEnts:
			b.W.RemoveEntity(e)
		case OpBatchAdd:
			b.W.Add(e, b.MapIDs(o.Add)...)
		case OpBatchRemove:
			b.W.Remove(e, b.MapIDs(o.Rem)...)
		case OpBatchExch:
			b.W.Exchange(e, b.MapIDs(o.Add), b.MapIDs(o.Rem))
		case OpRelExchB:
			b.W.Relations().Exchange(e, b.MapIDs(o.Add), b.MapIDs(o.Rem), b.IDs[o.C], b.Handle(o.T))
		case OpBatchSetRel:
			b.W.Relations().Set(e, b.IDs[o.C], b.Handle(o.T))
		}
	}
}

func (s *Sim) doBatch(o *Op) {
	// 1. what does the filter select right now? (asked through the original, plain filter)
	sels := [][]int{}
	comps := []*Compiled{}
	for _, b := range s.Worlds() {
		c := s.compiledFor(o, b)
		if c == nil {
			s.Report(finding(CatHarness, "batch op through empty slot: %s", o.Describe()))
			return
		}
		sel, fd := b.QuerySet(c.Flt)
		if fd == nil {
			fd = s.checkSelection(b, c, sel, "query")
		}
		if fd != nil {
			s.Report(fd)
			return
		}
		sels = append(sels, sel)
		comps = append(comps, c)
	}
	sel := sels[0]
	for i := 1; i < len(sels); i++ {
		a, l := sortedCopy(sels[0]), sortedCopy(sels[i])
		if fmt.Sprint(a) != fmt.Sprint(l) {
			// both passed checkSelection. A registered relation filter keeps its target HANDLE; once
			// that entity is gone (Reset, LoadEntities) the handle may be issued again, and to
			// different entities in the two worlds (they recycle in different orders): then the
			// filter legitimately selects different entities and the call cannot be followed in
			// lock step.
			y0, d0 := s.Worlds()[0].Expect(comps[0], s.M)
			yi, di := s.Worlds()[i].Expect(comps[i], s.M)
			if fmt.Sprint(y0, d0) != fmt.Sprint(yi, di) {
				s.Aborted = true
				if s.St != nil {
					s.St.Count("ended_stale_target_handle_differs_between_worlds", 1)
				}
				return
			}
			s.Report(finding(CatBatchDiff, "lock-step worlds select different entities: %v vs %v", a, l))
			return
		}
	}
	next, ill := s.batchNext(o, sel)
	if ill != nil && o.K == OpBatchSetRel && o.T == TZero && o.Ill == "" {
		// Entities without the relation component and the zero target: the batch call skips
		// them as "already have the desired target" while the documentation lists a missing
		// component as illegal. Generators never produce this; not asserted either way.
		s.Report(finding(CatHarness, "ambiguous SetRelation batch generated: %s", o.Describe()))
		return
	}
	if !s.sanity(o, ill) {
		return
	}
	panicCat := s.panicClass(o)
	if o.K == OpRemoveEnts && !o.Reg {
		panicCat = CatPanicBatch
		for _, ord := range sel {
			if s.everTgt[ord] {
				panicCat = CatPanicTarget
			}
		}
	}
	// expected affected entities (for Q variants and events)
	affected := []int{}
	for _, ord := range sel {
		if o.K == OpRemoveEnts || next == nil {
			affected = append(affected, ord)
			continue
		}
		cur := s.M.Ents[ord].EntState
		if o.K == OpBatchSetRel && cur == next[ord] {
			continue
		}
		affected = append(affected, ord)
	}
	noop := (o.K == OpBatchExch) && len(o.Add) == 0 && len(o.Rem) == 0
	srcStates := map[EntState]bool{}
	for _, ord := range affected {
		srcStates[s.M.Ents[ord].EntState] = true
	}

	// 2. run it
	for wi, b := range s.Worlds() {
		loop := b == s.L
		var count int
		var q *ecs.Query
		var fd *Finding
		p := Call(func() {
			if loop && ill == nil {
				if !noop {
					b.execLoop(o, sels[wi])
				}
				return
			}
			count, q = b.execBatch(o, comps[wi].Filter())
			if q != nil {
				fd = s.drainBatchQuery(o, b, q, affected, next, noop)
			}
		})
		if ill != nil {
			if len(sel) == 0 && strings.Contains(ill.Why, "dead relation target") {
				continue // nothing to assign the target to: either outcome accepted (DESIGN 4.12)
			}
			s.afterIllegal(o, b, ill, p, "", false)
			if p == nil || s.Done() {
				return
			}
			continue
		}
		if p != nil {
			s.unexpectedPanic(o, b, p, panicCat)
			return
		}
		if fd != nil {
			s.Report(fd)
			return
		}
		if !loop && q == nil {
			s.Flag("batch.count", count)
			want := len(sel)
			if count != want && !(noop && count == 0) {
				cat := CatBatchDiff
				if o.Reg {
					cat = CatCacheDiff
				}
				s.Report(finding(cat, "%s: %s returned %d, the filter matched %d entities (%v)", b.Name, o.Describe(), count, want, sortedCopy(sel)))
				return
			}
		}
	}
	if ill != nil {
		if len(sel) == 0 {
			s.checkEvents(o, nil)
		}
		return
	}
	// 3. model: the single-entity rule for every selected entity
	chs := []Change{}
	if !noop {
		for _, ord := range sel {
			if o.K == OpRemoveEnts {
				chs = append(chs, s.M.Remove(ord))
				s.noteDeath(ord)
				continue
			}
			cur := s.M.Ents[ord].EntState
			if cur == next[ord] && o.K == OpBatchSetRel {
				continue
			}
			chs = append(chs, s.M.SetState(ord, next[ord], nil, append([]int{}, o.Add...), append([]int{}, o.Rem...)))
		}
		if (o.K == OpBatchSetRel || o.K == OpRelExchB) && len(sel) > 0 {
			s.noteTarget(o.T)
		}
	}
	if len(sel) >= 2 {
		s.label("batch: >=2 entities")
	}
	s.Flag("batch.selected", len(sel))
	s.Flag("batch.affected", len(affected))
	s.Flag("batch.sources", len(srcStates))
	if len(srcStates) >= 2 {
		s.label("batch: >=2 source tables")
	}
	s.checkEvents(o, chs)
}

// drainBatchQuery iterates the query a Q variant returned: exactly the affected entities, each
// once, with their new components accessible.
func (s *Sim) drainBatchQuery(o *Op, b *WB, q *ecs.Query, affected []int, next map[int]EntState, noop bool) *Finding {
	want := asSet(affected)
	if noop {
		want = map[int]bool{}
	}
	if !b.W.IsLocked() {
		q.Close()
		return finding(CatLock, "%s: world not locked while the query of %s is open", b.Name, o.K)
	}
	if c := q.Count(); c != len(want) {
		q.Close()
		return finding(CatBatchQuery, "%s: query of %s counts %d entities, %d were affected (%v)", b.Name, o.Describe(), c, len(want), sortedCopy(affected))
	}
	if fd := illegalQueryCalls(b, q, o.Script, len(want), "query of "+o.K); fd != nil {
		q.Close()
		return fd
	}
	if s.QueryHook != nil {
		if fd := s.QueryHook(b, q); fd != nil {
			q.Close()
			return fd
		}
	}
	at := make([]ecs.Entity, len(want))
	for i := range at {
		at[i] = q.EntityAt(i)
	}
	// advance pattern: scripted Step(n) calls first, then Next; optionally an early Close
	steps := []int{}
	closeAfter := -1
	for _, st := range o.Script {
		switch st.K {
		case "step":
			if st.N >= 1 {
				steps = append(steps, st.N)
			}
		case "closeafter":
			closeAfter = st.N
		}
	}
	seen := map[int]bool{}
	pos, adv, closedEarly := -1, 0, false
	for {
		n, ok := 1, false
		if adv < len(steps) {
			n = steps[adv]
			ok = q.Step(n)
			s.label("batch-result query: Step")
		} else {
			ok = q.Next()
		}
		adv++
		pos += n
		if ok != (pos < len(at)) {
			if ok {
				q.Close()
			}
			return finding(CatBatchQuery, "%s: query of %s: advancing by %d returned %v at position %d of %d", b.Name, o.Describe(), n, ok, pos, len(at))
		}
		if !ok {
			break
		}
		if closeAfter >= 0 && len(seen) >= closeAfter {
			q.Close()
			closedEarly = true
			s.label("batch-result query: closed early")
			break
		}
		if b.Rec != nil && len(b.Rec.Cur) > 0 {
			q.Close()
			return finding(CatEvents, "%s: %d events delivered while the query of %s is still open", b.Name, len(b.Rec.Cur), o.K)
		}
		h := q.Entity()
		if at[pos] != h {
			q.Close()
			return finding(CatBatchQuery, "%s: query of %s: EntityAt(%d)=%v, but the iteration is at %v at that position", b.Name, o.Describe(), pos, at[pos], h)
		}
		ord, ok := b.Ord[h]
		if !ok || !want[ord] {
			q.Close()
			return finding(CatBatchQuery, "%s: query of %s yields %v (#%d) which was not affected (affected: %v)", b.Name, o.Describe(), h, ord, sortedCopy(affected))
		}
		if seen[ord] {
			q.Close()
			return finding(CatBatchQuery, "%s: query of %s yields #%d twice", b.Name, o.Describe(), ord)
		}
		seen[ord] = true
		st := next[ord]
		e := &s.M.Ents[ord]
		if q.Mask() != b.ExpMask(st.Comps) {
			q.Close()
			return finding(CatBatchQuery, "%s: query of %s: Mask at #%d is not the new component set %v", b.Name, o.Describe(), ord, st.List())
		}
		for c := 0; c < b.U.N(); c++ {
			has := st.Has(c)
			p := q.Get(b.IDs[c])
			if q.Has(b.IDs[c]) != has || (p != nil) != has {
				q.Close()
				return finding(CatBatchQuery, "%s: query of %s: comp %d at #%d present=%v, want %v", b.Name, o.Describe(), c, ord, !has, has)
			}
			if p != b.W.Get(h, b.IDs[c]) {
				q.Close()
				return finding(CatBatchQuery, "%s: query of %s: Get(comp %d) at #%d is not the entity's component storage (World.Get differs)", b.Name, o.Describe(), c, ord)
			}
			if !has {
				continue
			}
			sp := b.U.Spec(c)
			wantV := make([]byte, sp.Size)
			if e.Has(c) { // kept component keeps its value
				wantV = e.Vals[c]
			}
			if got := sp.Masked(sp.ReadBytes(p)); !bytes.Equal(got, wantV) {
				q.Close()
				return finding(CatBatchQuery, "%s: query of %s: comp %d of #%d reads %x, want %x", b.Name, o.Describe(), c, ord, got, wantV)
			}
		}
		if rc := s.M.RelOf(st.Comps); rc >= 0 {
			if got, wantT := q.Relation(b.IDs[rc]), b.Handle(st.Target); got != wantT {
				q.Close()
				return finding(CatBatchQuery, "%s: query of %s: Relation at #%d = %v, want #%d %v", b.Name, o.Describe(), ord, got, st.Target, wantT)
			}
		}
	}
	if len(steps) == 0 && !closedEarly && len(seen) != len(want) {
		return finding(CatBatchQuery, "%s: query of %s visited %d of %d affected entities", b.Name, o.Describe(), len(seen), len(want))
	}
	if LockCount(b.W) > 0 {
		return finding(CatLock, "%s: world still locked after the query of %s was exhausted", b.Name, o.K)
	}
	return nil
}

// ---------------------------------------------------------------------------------------------
// queries, cache, reset

// doQuery runs a plain "iterate everything" query through the op's filter and checks the
// selection (scripts with Step/EntityAt are C03's own, see RunQueryScript).
func (s *Sim) doQuery(o *Op) {
	for _, b := range s.Worlds() {
		c := s.compiledFor(o, b)
		if c == nil {
			s.Report(finding(CatHarness, "query through empty slot: %s", o.Describe()))
			return
		}
		fd := s.RunQueryScript(b, c, o)
		if fd != nil {
			s.Report(fd)
			return
		}
	}
}

func (s *Sim) doRegister(o *Op) {
	for len(s.M.Regs) <= o.Slot {
		s.M.Regs = append(s.M.Regs, nil)
	}
	if s.M.Regs[o.Slot] != nil {
		s.Report(finding(CatHarness, "register into used slot %d", o.Slot))
		return
	}
	for _, b := range s.Worlds() {
		for len(b.Regs) <= o.Slot {
			b.Regs = append(b.Regs, nil)
		}
		c := b.Compile(o.F)
		p := Call(func() {
			cf := b.W.Cache().Register(c.Flt)
			c.Cached = &cf
		})
		if p != nil {
			s.unexpectedPanic(o, b, p, CatPanicCached)
			return
		}
		b.Regs[o.Slot] = c
	}
	s.M.Regs[o.Slot] = &RegFilter{F: o.F, Epoch: s.M.Epoch}
}

func (s *Sim) doUnregister(o *Op) {
	if o.Slot >= len(s.M.Regs) || s.M.Regs[o.Slot] == nil {
		s.Report(finding(CatHarness, "unregister of empty slot %d", o.Slot))
		return
	}
	for _, b := range s.Worlds() {
		c := b.Regs[o.Slot]
		var orig ecs.Filter
		p := Call(func() { orig = b.W.Cache().Unregister(c.Cached) })
		if p != nil {
			s.unexpectedPanic(o, b, p, CatPanicCached)
			return
		}
		if orig != c.Flt {
			s.Report(finding(CatCacheDiff, "%s: Unregister returned a different filter than was registered (%s)", b.Name, c.F.String()))
			return
		}
		b.Stale = append(b.Stale, c.Cached)
		b.Regs[o.Slot] = nil
	}
	s.M.Regs[o.Slot] = nil
	s.M.NStale++
}

func (s *Sim) doReset(o *Op) {
	for _, b := range s.Worlds() {
		p := Call(func() { b.W.Reset() })
		if p != nil {
			s.unexpectedPanic(o, b, p, CatPanicReset)
			return
		}
		b.ForgetHandles()
		b.ResPtr = [NumRes]any{}
	}
	if len(s.everTgt) > 0 {
		s.TargetDied = true
	}
	if s.Cfg.FreshTwin {
		s.newFreshTwin()
		if s.Done() {
			return
		}
	}
	s.M.Reset()
	s.saved = nil // its bookkeeping refers to handles of the history before the reset
	s.everTgt = map[int]bool{}
	s.DeadTargets = nil
	s.label("reset")
}

// doDumpLoad: DumpEntities, Reset, LoadEntities of the dump into the same world. The alive
// set and all handles survive; components do not.
func (s *Sim) doDumpLoad(o *Op) {
	for _, b := range s.Worlds() {
		var terr error
		p := Call(func() {
			dump := b.W.DumpEntities()
			if dump, terr = transportDump(dump, o.V); terr != nil {
				return
			}
			b.W.Reset()
			b.W.LoadEntities(&dump)
		})
		if terr != nil {
			s.Report(finding(CatHandles, "%s: the entity dump does not survive encoding/json: %v", b.Name, terr))
			return
		}
		if p != nil {
			s.unexpectedPanic(o, b, p, CatPanicReset)
			return
		}
		b.ResPtr = [NumRes]any{}
	}
	s.M.Res = [NumRes]bool{}
	for i := range s.M.Ents {
		e := &s.M.Ents[i]
		if !e.Alive {
			continue
		}
		e.EntState = EntState{Target: TZero}
		e.Vals = make([][]byte, s.M.U.N())
	}
	s.everTgt = map[int]bool{}
	s.DeadTargets = nil
	s.label("dump+reset+load")
	if o.V > 0 {
		s.label("dump sent through encoding/json")
	}
}

// checkRelQueries: for every relation component r and every target t that is in use, was in
// use and died, or is the zero entity, Query(RelationFilter(All(r), t)) selects exactly the
// entities whose relation component is r and whose current target is t.
func (s *Sim) checkRelQueries() {
	m := s.M
	targets := map[int]bool{TZero: true}
	for i := range m.Ents {
		if m.Ents[i].Alive && m.RelOf(m.Ents[i].Comps) >= 0 {
			targets[m.Ents[i].Target] = true
		}
	}
	for _, d := range s.DeadTargets {
		targets[d] = true
	}
	// also entities that were a target once and have no children at the moment (their table exists
	// and is empty)
	for ord := range s.everTgt {
		if ord >= 0 && ord < len(m.Ents) {
			targets[ord] = true
		}
	}
	tl := make([]int, 0, len(targets))
	for t := range targets {
		tl = append(tl, t)
	}
	sort.Ints(tl)
	for _, b := range s.Worlds() {
		for r := len(m.U.Plain); r < m.U.N(); r++ {
			for _, t := range tl {
				f := &F{T: "rel", L: &F{T: "mask", Ids: []int{r}}, Target: t}
				c := b.Compile(f)
				got, fd := b.QuerySet(c.Flt)
				if fd == nil {
					fd = s.checkSelection(b, c, got, "relation query")
				}
				if fd == nil {
					// the same selection by random access: Count + EntityAt(0..Count-1) of a fresh query
					fd = b.entityAtSet(c, got)
				}
				if fd != nil {
					fd.Cat = CatRelation
					s.Report(fd)
					return
				}
				if s.Cfg.RelQueriesRegistered && b == s.B {
					if fd := s.relQueryRegistered(b, f, c, got); fd != nil {
						s.Report(fd)
						return
					}
				}
			}
		}
	}
}

// relQueryRegistered keeps RelationFilter(All(r), t) registered from the first time the pair
// is seen (at most 12 at a time) and compares the registered filter's selection with the plain one's.
func (s *Sim) relQueryRegistered(b *WB, f *F, c *Compiled, plain []int) *Finding {
	if s.relRegs == nil {
		s.relRegs = map[string]*Compiled{}
	}
	key := fmt.Sprintf("%d/%v", f.L.Ids[0], c.Tgt)
	rc, ok := s.relRegs[key]
	if !ok {
		if len(s.relRegs) >= 12 {
			return nil
		}
		rc = &Compiled{F: f, Flt: c.Flt, Tgt: c.Tgt}
		if p := Call(func() {
			cf := b.W.Cache().Register(rc.Flt)
			rc.Cached = &cf
		}); p != nil {
			return finding(CatRelation, "%s: registering %s panicked: %v", b.Name, f.String(), p)
		}
		s.relRegs[key] = rc
		s.label("relation filter kept registered")
	} else if (s.Step+len(key)*7)%4 == 0 {
		// now and then the filter is unregistered and registered again: the registration then
		// happens in whatever state the target's table is in (e.g. existing but empty)
		if p := Call(func() {
			b.W.Cache().Unregister(rc.Cached)
			cf := b.W.Cache().Register(rc.Flt)
			rc.Cached = &cf
		}); p != nil {
			return finding(CatRelation, "%s: registering %s again panicked: %v", b.Name, f.String(), p)
		}
	}
	var got []int
	var fd *Finding
	if p := Call(func() { got, fd = b.QuerySet(rc.Cached) }); p != nil {
		return finding(CatRelation, "%s: query through the registered %s panicked: %v", b.Name, f.String(), p)
	}
	if fd != nil {
		fd.Cat = CatRelation
		return fd
	}
	if fmt.Sprint(sortedCopy(got)) != fmt.Sprint(sortedCopy(plain)) {
		return finding(CatRelation, "%s: relation filter %s, registered earlier, selects %v; the same filter unregistered selects %v", b.Name, f.String(), sortedCopy(got), sortedCopy(plain))
	}
	return nil
}

// checkCache: every registered filter selects what its original selects (C07).
func (s *Sim) checkCache() {
	for _, b := range s.Worlds() {
		for slot, c := range b.Regs {
			if c == nil {
				continue
			}
			plain, fd := b.QuerySet(c.Flt)
			if fd != nil {
				s.Report(fd)
				return
			}
			if fd := s.checkSelection(b, c, plain, "plain query"); fd != nil {
				s.Report(fd)
				return
			}
			var cached []int
			var fd2 *Finding
			p := Call(func() { cached, fd2 = b.QuerySet(c.Cached) })
			if p != nil {
				s.Report(finding(CatPanicCached, "%s: query through registered filter %s panicked: %v", b.Name, c.F.String(), p))
				return
			}
			if fd2 != nil {
				fd2.Cat = CatCacheDiff
				s.Report(fd2)
				return
			}
			a, c2 := sortedCopy(plain), sortedCopy(cached)
			if fmt.Sprint(a) != fmt.Sprint(c2) {
				s.Report(finding(CatCacheDiff, "%s: registered filter (slot %d) %s selects %v, the original filter selects %v", b.Name, slot, c.F.String(), c2, a))
				return
			}
			var cnt int
			p = Call(func() {
				q := b.W.Query(c.Cached)
				cnt = q.Count()
				q.Close()
			})
			if p != nil || cnt != len(plain) {
				s.Report(finding(CatCacheDiff, "%s: registered filter (slot %d) %s: Count()=%d (panic %v), the original filter selects %d", b.Name, slot, c.F.String(), cnt, p, len(plain)))
				return
			}
			// the registered filter is itself a Filter: its Matches is the original's, mask by mask
			masks := []ecs.Mask{{}}
			for ord := range s.M.Ents {
				if s.M.Ents[ord].Alive {
					masks = append(masks, b.W.Mask(b.H[ord]))
				}
			}
			for i := range masks {
				var mc, mo bool
				if p := Call(func() { mc, mo = c.Cached.Matches(&masks[i]), c.Flt.Matches(&masks[i]) }); p != nil || mc != mo {
					s.Report(finding(CatCacheDiff, "%s: registered filter (slot %d) %s: CachedFilter.Matches(%v)=%v, the original filter's Matches=%v (panic %v)", b.Name, slot, c.F.String(), masks[i], mc, mo, p))
					return
				}
			}
		}
	}
}

// newFreshTwin creates a brand-new world that has the same component and resource types
// registered, the same filters registered (same filter values, i.e. the same target handles) and
// the same kind of listener installed as the world that was just reset.
func (s *Sim) newFreshTwin() {
	f := NewWB("fresh-world", s.M.U)
	if s.B.Rec != nil {
		f.InstallRecorder()
	}
	for slot, c := range s.B.Regs {
		for len(f.Regs) <= slot {
			f.Regs = append(f.Regs, nil)
		}
		if c == nil {
			continue
		}
		tgt := c.Tgt
		nc := &Compiled{F: c.F, Tgt: tgt}
		nc.Flt = c.F.Compile(f.ID, func(int) ecs.Entity { return tgt })
		if p := Call(func() {
			cf := f.W.Cache().Register(nc.Flt)
			nc.Cached = &cf
		}); p != nil {
			s.Report(finding(CatHarness, "registering filter %s on the fresh twin panicked: %v", c.F.String(), p))
			return
		}
		f.Regs[slot] = nc
	}
	// unregistered (stale) filters are not carried over: their use is illegal anyway
	f.Stale = nil
	s.F = f
	s.RawDiverged = false
}

// checkFreshHandles: a reset world issues the same handles as a fresh one (while implied).
func (s *Sim) checkFreshHandles(o *Op, prev int) {
	if s.F == nil || s.Done() {
		return
	}
	if s.Flags["batch.sources"] >= 2 {
		// A batch call processed several tables in table order, which is not the same in worlds
		// with different table-creation histories: rows of a shared destination table, or the
		// order in which removed entities are recycled, may differ from here on.
		s.RawDiverged = true
	}
	if s.RawDiverged || len(s.B.H) != len(s.F.H) || prev > len(s.B.H) {
		return
	}
	a := map[ecs.Entity]bool{}
	for _, h := range s.B.H[prev:] {
		a[h] = true
	}
	for _, h := range s.F.H[prev:] {
		if !a[h] {
			s.Report(finding(CatResetDiff, "creation on the reset world issued handles %v, on a fresh world given the same operations %v: %s", s.B.H[prev:], s.F.H[prev:], o.Describe()))
			return
		}
	}
}

// savedDump is the state kept by dumpSave.
type savedDump struct {
	dumps  []ecs.EntityDump // per world
	nEnts  int
	alive  []bool
	nAlive int
}

// doDumpSave takes a dump of every world and remembers the model's entity state.
func (s *Sim) doDumpSave(o *Op) {
	sd := &savedDump{nEnts: len(s.M.Ents), nAlive: s.M.NAlive}
	for i := range s.M.Ents {
		sd.alive = append(sd.alive, s.M.Ents[i].Alive)
	}
	for _, b := range s.Worlds() {
		var d ecs.EntityDump
		if p := Call(func() { d = b.W.DumpEntities() }); p != nil {
			s.unexpectedPanic(o, b, p, CatPanicReset)
			return
		}
		sd.dumps = append(sd.dumps, d)
	}
	s.saved = sd
	s.label("dump saved")
}

// transportDump returns the dump as it arrives after the chosen transport: 0 the value itself, 1
// through encoding/json (compact), 2 through encoding/json's indented form.
func transportDump(d ecs.EntityDump, how int) (ecs.EntityDump, error) {
	if how == 0 {
		return d, nil
	}
	js, err := json.Marshal(d)
	if how == 2 {
		js, err = json.MarshalIndent(d, "", "\t")
	}
	if err != nil {
		return d, err
	}
	out := ecs.EntityDump{}
	err = json.Unmarshal(js, &out)
	return out, err
}

// doDumpRestore resets every world and loads the dump taken earlier: the entity state (alive
// set, generations, free list) is the one of dump time, whatever happened in between;
// components are gone. Handles issued after the dump are forgotten (the history restarts).
func (s *Sim) doDumpRestore(o *Op) {
	sd := s.saved
	if sd == nil {
		return
	}
	for i, b := range s.Worlds() {
		if i >= len(sd.dumps) {
			s.Report(finding(CatHarness, "dumpRestore: world set changed since dumpSave"))
			return
		}
		d, terr := transportDump(sd.dumps[i], o.V)
		if terr != nil {
			s.Report(finding(CatHandles, "%s: the entity dump does not survive encoding/json: %v", b.Name, terr))
			return
		}
		p := Call(func() {
			b.W.Reset()
			b.W.LoadEntities(&d)
		})
		if p != nil {
			s.unexpectedPanic(o, b, p, CatPanicReset)
			return
		}
		for _, h := range b.H[sd.nEnts:] {
			delete(b.Ord, h)
		}
		b.H = b.H[:sd.nEnts]
		b.ResPtr = [NumRes]any{}
	}
	s.M.Ents = s.M.Ents[:sd.nEnts]
	s.M.NAlive = 0
	for i := range s.M.Ents {
		e := &s.M.Ents[i]
		e.Alive = sd.alive[i]
		e.EntState = EntState{Target: TZero}
		e.Vals = nil
		if e.Alive {
			e.Vals = make([][]byte, s.M.U.N())
			s.M.NAlive++
		}
	}
	s.M.Res = [NumRes]bool{}
	s.everTgt = map[int]bool{}
	s.DeadTargets = nil
	// ordinals beyond the saved state are given to new entities from now on (and their handles may be
	// issued again): registered relation filters keep their compiled target HANDLE, so their target
	// ORDINAL can no longer be used by the generator (same rule as after Reset)
	s.M.Epoch++
	if s.F != nil {
		// the fresh twin of a reset segment cannot follow a load of older state
		s.F = nil
	}
	s.label("dump restored after further history")
	if o.V > 0 {
		s.label("dump sent through encoding/json")
	}
}
