package core

import (
	"bytes"
	"fmt"

	"github.com/mlange-42/arche/ecs"
)

// checkPosition compares the query's accessors at its current position with the world and the
// model.
func (s *Sim) checkPosition(b *WB, q *ecs.Query, want ecs.Entity, what string) *Finding {
	h := q.Entity()
	if h != want {
		return finding(CatScan, "%s: %s: query is at %v, the pure-Next pass has %v at this position", b.Name, what, h, want)
	}
	ord, ok := b.Ord[h]
	if !ok || !s.M.Ents[ord].Alive {
		return finding(CatScan, "%s: %s: query visits %v which is not alive", b.Name, what, h)
	}
	e := &s.M.Ents[ord]
	if q.Mask() != b.W.Mask(h) || q.Mask() != b.ExpMask(e.Comps) {
		return finding(CatScan, "%s: %s: Query.Mask at #%d disagrees with World.Mask / the model", b.Name, what, ord)
	}
	qi, wi := q.Ids(), b.W.Ids(h)
	if len(qi) != len(wi) {
		return finding(CatScan, "%s: %s: Query.Ids at #%d = %v, World.Ids = %v", b.Name, what, ord, qi, wi)
	}
	for i := range qi {
		if qi[i] != wi[i] {
			return finding(CatScan, "%s: %s: Query.Ids at #%d = %v, World.Ids = %v", b.Name, what, ord, qi, wi)
		}
	}
	// both are documented as copies that "can be manipulated safely": do so
	scribbleIDs(qi)
	scribbleIDs(wi)
	for c := 0; c < b.U.N(); c++ {
		id := b.IDs[c]
		if q.Has(id) != b.W.Has(h, id) {
			return finding(CatScan, "%s: %s: Query.Has(comp %d) at #%d = %v, World.Has = %v", b.Name, what, c, ord, q.Has(id), b.W.Has(h, id))
		}
		p := q.Get(id)
		if p != b.W.Get(h, id) {
			return finding(CatScan, "%s: %s: Query.Get(comp %d) at #%d differs from World.Get", b.Name, what, c, ord)
		}
		if (p != nil) != e.Has(c) {
			return finding(CatScan, "%s: %s: Query.Get(comp %d) at #%d nil=%v, model says present=%v", b.Name, what, c, ord, p == nil, e.Has(c))
		}
		if p != nil {
			sp := b.U.Spec(c)
			if got := sp.Masked(sp.ReadBytes(p)); !bytes.Equal(got, e.Vals[c]) {
				return finding(CatScan, "%s: %s: Query.Get(comp %d) at #%d reads %x, last written %x", b.Name, what, c, ord, got, e.Vals[c])
			}
		}
	}
	for _, id := range b.probeIDs {
		if q.Has(id) || q.Get(id) != nil {
			return finding(CatScan, "%s: %s: query reports component %v at #%d which it was never given", b.Name, what, id, ord)
		}
	}
	if rc := s.M.RelOf(e.Comps); rc >= 0 {
		got := q.Relation(b.IDs[rc])
		if got != b.W.Relations().Get(h, b.IDs[rc]) || got != b.Handle(e.Target) {
			return finding(CatScan, "%s: %s: Query.Relation at #%d = %v, world says %v, model says #%d", b.Name, what, ord, got, b.W.Relations().Get(h, b.IDs[rc]), e.Target)
		}
	}
	return nil
}

// RunQueryScript opens a query through compiled filter c (the registered filter if o.Reg) and
// drives it with the op's script, comparing against a pure-Next reference pass.
func (s *Sim) RunQueryScript(b *WB, c *Compiled, o *Op) (fd *Finding) {
	flt := c.Flt
	if o.Reg {
		flt = c.Cached
	}
	what := "Query(" + c.F.String() + ")"
	if o.Reg {
		what = "Query(registered " + c.F.String() + ")"
	}
	locks0 := LockCount(b.W)
	p := Call(func() {
		// reference pass: pure Next
		ref := []ecs.Entity{}
		refOrd := []int{}
		seen := map[ecs.Entity]bool{}
		q0 := b.W.Query(flt)
		for q0.Next() {
			h := q0.Entity()
			if seen[h] {
				q0.Close()
				fd = finding(CatScan, "%s: %s visits %v twice", b.Name, what, h)
				return
			}
			seen[h] = true
			ref = append(ref, h)
			ord, ok := b.Ord[h]
			if !ok {
				q0.Close()
				fd = finding(CatScan, "%s: %s visits %v which was never issued", b.Name, what, h)
				return
			}
			refOrd = append(refOrd, ord)
		}
		// "count after the loop": Count called for the first time when the iteration has finished
		if cnt := q0.Count(); cnt != len(ref) {
			fd = finding(CatScan, "%s: %s: Count() called after the loop finished = %d, the loop visited %d entities", b.Name, what, cnt, len(ref))
			return
		}
		if b == s.B {
			s.LastQueryOrder = ref
		}
		if fd = s.checkSelection(b, c, refOrd, what); fd != nil {
			return
		}
		if l := LockCount(b.W); l != locks0 {
			fd = finding(CatLock, "%s: %s: %d locks held after exhaustion, %d before the query", b.Name, what, l, locks0)
			return
		}
		if len(ref) >= 2 {
			s.label("query: >=2 entities")
		}
		tables := map[EntState]bool{}
		for _, ord := range refOrd {
			tables[s.M.Ents[ord].EntState] = true
		}
		s.Flag("query.tables", len(tables))
		s.Flag("query.entities", len(ref))
		if len(tables) >= 2 {
			s.label("query: >=2 tables")
		}
		// scripted pass
		q := b.W.Query(flt)
		open := true
		pos := -1
		defer func() {
			if open {
				q.Close()
			}
		}()
		script := o.Script
		if len(script) == 0 {
			script = []QStep{{K: "count"}, {K: "all"}}
		}
		for _, st := range script {
			if !open {
				break
			}
			switch st.K {
			case "count":
				if cnt := q.Count(); cnt != len(ref) {
					fd = finding(CatScan, "%s: %s: Count()=%d, iteration visits %d entities", b.Name, what, cnt, len(ref))
					return
				}
			case "at":
				if len(ref) == 0 {
					continue
				}
				i := st.N % len(ref)
				if got := q.EntityAt(i); got != ref[i] {
					fd = finding(CatScan, "%s: %s: EntityAt(%d)=%v, the %d-th visited entity is %v", b.Name, what, i, got, i, ref[i])
					return
				}
			case "atall":
				for i := range ref {
					if got := q.EntityAt(i); got != ref[i] {
						fd = finding(CatScan, "%s: %s: EntityAt(%d)=%v, the %d-th visited entity is %v", b.Name, what, i, got, i, ref[i])
						return
					}
				}
			case "next":
				ok := q.Next()
				pos++
				if ok != (pos < len(ref)) {
					fd = finding(CatScan, "%s: %s: Next() returned %v at position %d of %d", b.Name, what, ok, pos, len(ref))
					open = ok
					return
				}
				if !ok {
					open = false
					continue
				}
				if fd = s.checkPosition(b, &q, ref[pos], what); fd != nil {
					return
				}
			case "step":
				n := st.N
				if n < 1 {
					n = 1
				}
				ok := q.Step(n)
				pos += n
				if ok != (pos < len(ref)) {
					fd = finding(CatScan, "%s: %s: Step(%d) returned %v landing at position %d of %d", b.Name, what, n, ok, pos, len(ref))
					open = ok
					return
				}
				if !ok {
					open = false
					continue
				}
				s.label("query: step")
				if fd = s.checkPosition(b, &q, ref[pos], fmt.Sprintf("%s after Step(%d)", what, n)); fd != nil {
					return
				}
			case "all":
				for {
					ok := q.Next()
					pos++
					if ok != (pos < len(ref)) {
						fd = finding(CatScan, "%s: %s: Next() returned %v at position %d of %d", b.Name, what, ok, pos, len(ref))
						open = ok
						return
					}
					if !ok {
						open = false
						break
					}
					if fd = s.checkPosition(b, &q, ref[pos], what); fd != nil {
						return
					}
				}
			case "close":
				q.Close()
				open = false
			case "at!neg", "at!count", "step!0", "step!neg":
				if fd = illegalQueryCalls(b, &q, []QStep{st}, len(ref), what); fd != nil {
					return
				}
				s.label("illegal query call: " + st.K)
			case "rel!bad":
				// Query.Relation for a component the current entity does not carry as its relation (a
				// plain component, or a relation component it lacks): documented to panic; the query stays
				// where it is
				if pos < 0 || pos >= len(ref) {
					continue
				}
				cur := s.M.Ents[b.Ord[ref[pos]]].EntState
				cands := []int{}
				for c := 0; c < s.M.U.N(); c++ {
					if !(s.M.U.IsRel(c) && cur.Has(c)) {
						cands = append(cands, c)
					}
				}
				if len(cands) == 0 {
					continue
				}
				c := cands[st.N%len(cands)]
				if p := Call(func() { q.Relation(b.IDs[c]) }); p == nil {
					fd = finding(CatIllegal, "%s: %s: Query.Relation(component %d) did not panic although the entity at the query's position does not carry it as a relation", b.Name, what, c)
					return
				}
				if !b.W.IsLocked() {
					fd = finding(CatIllegal, "%s: %s: the rejected Query.Relation call released the query's lock", b.Name, what)
					return
				}
				if fd = s.checkPosition(b, &q, ref[pos], what+" after a rejected Query.Relation"); fd != nil {
					return
				}
				s.label("illegal query call: rel!bad")
			}
		}
		if open {
			q.Close()
			open = false
		}
		if l := LockCount(b.W); l != locks0 {
			fd = finding(CatLock, "%s: %s: %d locks held after the query ended, %d before", b.Name, what, l, locks0)
		}
	})
	if p != nil {
		cat := CatPanicQuery
		if o.Reg {
			cat = CatPanicCached
		}
		return finding(cat, "%s: %s panicked: %v (script %v)", b.Name, what, p, o.Script)
	}
	return fd
}

// illegalQueryCalls performs the out-of-range calls listed in steps on an open query: each must
// panic, and the query must stay open (the world locked) afterwards. Other step kinds are skipped.
func illegalQueryCalls(b *WB, q *ecs.Query, steps []QStep, count int, what string) *Finding {
	for _, st := range steps {
		var p any
		switch st.K {
		case "at!neg":
			p = Call(func() { q.EntityAt(-1 - st.N%3) })
		case "at!count":
			p = Call(func() { q.EntityAt(count + st.N%3) })
		case "step!0":
			p = Call(func() { q.Step(0) })
		case "step!neg":
			p = Call(func() { q.Step(-1 - st.N%3) })
		default:
			continue
		}
		if p == nil {
			return finding(CatIllegal, "%s: %s: out-of-range call %s did not panic (count %d)", b.Name, what, st.K, count)
		}
		if !b.W.IsLocked() {
			return finding(CatIllegal, "%s: %s: rejected call %s released the query's lock", b.Name, what, st.K)
		}
	}
	return nil
}
