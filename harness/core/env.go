package core

import (
	"encoding/json"
	"os"
	"strconv"
)

// Failer is the part of testing.T / rapid.T the machinery needs.
type Failer interface {
	Fatalf(format string, args ...any)
	Logf(format string, args ...any)
}

// EnvInt reads an integer environment variable with a default.
func EnvInt(name string, def int) int {
	if v := os.Getenv(name); v != "" {
		if n, err := strconv.Atoi(v); err == nil {
			return n
		}
	}
	return def
}

// Tier returns "quick" or "thorough".
func Tier() string {
	if os.Getenv("VERIF_TIER") == "thorough" {
		return "thorough"
	}
	return "quick"
}

// ReplayPath is the replay file to execute instead of generating (empty = generate).
func ReplayPath() string { return os.Getenv("VERIF_REPLAY") }

// WriteFail writes a replay file for a failing case to VERIF_FAIL_OUT (if set). It is
// overwritten by every failing execution; rapid executes the shrunk case last, so what
// survives is the minimal history.
func WriteFail(v any) {
	path := os.Getenv("VERIF_FAIL_OUT")
	if path == "" {
		return
	}
	b, err := json.MarshalIndent(v, "", " ")
	if err != nil {
		b = []byte(`{"error":"could not marshal failing case"}`)
	}
	_ = os.WriteFile(path, b, 0o644)
}

// ReadReplay loads a replay file into v.
func ReadReplay(path string, v any) error {
	b, err := os.ReadFile(path)
	if err != nil {
		return err
	}
	return json.Unmarshal(b, v)
}
