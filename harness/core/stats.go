// Package core holds the machinery shared by all property checks: statistics and evidence
// collection, the reference model, the operation grammar, the executor and the replay format.
package core

import (
	"encoding/binary"
	"encoding/json"
	"fmt"
	"hash/fnv"
	"os"
	"sort"
	"sync"
)

// Stats collects what a test process actually explored. It is written as JSON to the file named
// by VERIF_STATS_OUT when the test ends (also when it fails); the set of hashes of non-trivial
// cases is written next to it (<file>.hashes, 8 bytes each) so that the driver can count
// distinct cases across shards.
type Stats struct {
	mu         sync.Mutex
	Property   string            `json:"property"`
	Build      string            `json:"build"`
	Cases      int               `json:"cases"`
	NonTrivial int               `json:"nontrivial"`
	Labels     map[string]int    `json:"labels"`
	Counters   map[string]int    `json:"counters"`
	Samples    []json.RawMessage `json:"samples"`
	Notes      []string          `json:"notes"`
	Exhaustive bool              `json:"exhaustive"`
	Rule       string            `json:"rule"`
	// Digest summarises everything the process computed that must be the same in every process
	// given the same seed (C13).
	Digest     string `json:"digest"`
	hashes     map[uint64]struct{}
	maxSamples int
}

// NewStats creates a collector.
func NewStats(property string) *Stats {
	return &Stats{
		Property:   property,
		Build:      BuildName(),
		Labels:     map[string]int{},
		Counters:   map[string]int{},
		hashes:     map[uint64]struct{}{},
		maxSamples: 4,
	}
}

// Case is the record of one generated case.
type Case struct {
	s          *Stats
	labels     map[string]struct{}
	nontrivial bool
	h          uint64
	sample     func() any
	ended      bool
}

// Begin starts a case.
func (s *Stats) Begin() *Case {
	return &Case{s: s, labels: map[string]struct{}{}, h: 14695981039346656037}
}

// Label marks the case as belonging to a class (counted once per case).
func (c *Case) Label(l string) { c.labels[l] = struct{}{} }

// NonTrivial marks the case as non-trivial by the property's stated rule.
func (c *Case) NonTrivial() { c.nontrivial = true }

// IsNonTrivial reports whether the case was marked.
func (c *Case) IsNonTrivial() bool { return c.nontrivial }

// Feed mixes a description of what the case did into its identity hash.
func (c *Case) Feed(s string) {
	h := fnv.New64a()
	var b [8]byte
	binary.LittleEndian.PutUint64(b[:], c.h)
	h.Write(b[:])
	h.Write([]byte(s))
	c.h = h.Sum64()
}

// FeedInt mixes an integer into the identity hash.
func (c *Case) FeedInt(v uint64) {
	c.h ^= v
	c.h *= 1099511628211
}

// Sample registers a function producing a JSON-able description of the case; it is only called
// when the case is chosen as a sample.
func (c *Case) Sample(f func() any) { c.sample = f }

// End books the case. Safe to call more than once.
func (c *Case) End() {
	if c.ended {
		return
	}
	c.ended = true
	s := c.s
	s.mu.Lock()
	defer s.mu.Unlock()
	s.Cases++
	for l := range c.labels {
		s.Labels[l]++
	}
	if c.nontrivial {
		s.NonTrivial++
		_, seen := s.hashes[c.h]
		s.hashes[c.h] = struct{}{}
		if !seen && c.sample != nil && len(s.Samples) < s.maxSamples {
			// spread samples: take the 1st, and then every case whose hash is "rare enough"
			if len(s.Samples) == 0 || c.h%64 == 0 {
				if b, err := json.Marshal(c.sample()); err == nil {
					s.Samples = append(s.Samples, b)
				}
			}
		}
	}
}

// Count adds to a free counter (not per case).
func (s *Stats) Count(name string, n int) {
	s.mu.Lock()
	s.Counters[name] += n
	s.mu.Unlock()
}

// Note records a free-text remark that ends up in the evidence.
func (s *Stats) Note(format string, args ...any) {
	s.mu.Lock()
	s.Notes = append(s.Notes, fmt.Sprintf(format, args...))
	s.mu.Unlock()
}

// AddSample appends an explicit sample.
func (s *Stats) AddSample(v any) {
	s.mu.Lock()
	defer s.mu.Unlock()
	if len(s.Samples) >= s.maxSamples+2 {
		return
	}
	if b, err := json.Marshal(v); err == nil {
		s.Samples = append(s.Samples, b)
	}
}

// AddDistinct books `evaluated` cases of an enumeration of which the given hashes are non-trivial.
func (s *Stats) AddDistinct(h uint64) {
	s.mu.Lock()
	s.hashes[h] = struct{}{}
	s.mu.Unlock()
}

// Flush writes the stats file (if VERIF_STATS_OUT is set).
func (s *Stats) Flush() {
	path := os.Getenv("VERIF_STATS_OUT")
	if path == "" {
		return
	}
	s.mu.Lock()
	defer s.mu.Unlock()
	b, _ := json.Marshal(s)
	_ = os.WriteFile(path, b, 0o644)
	hs := make([]uint64, 0, len(s.hashes))
	for h := range s.hashes {
		hs = append(hs, h)
	}
	sort.Slice(hs, func(i, j int) bool { return hs[i] < hs[j] })
	buf := make([]byte, 8*len(hs))
	for i, h := range hs {
		binary.LittleEndian.PutUint64(buf[8*i:], h)
	}
	_ = os.WriteFile(path+".hashes", buf, 0o644)
}
