//go:build !verif

package core

import "github.com/mlange-42/arche/ecs"

// HooksEnabled reports whether the harness was built against the verif-tagged hooks.
const HooksEnabled = false

// CheckInvariants is a no-op without hooks.
func CheckInvariants(w *ecs.World) error { return nil }

// Shape is empty without hooks.
func Shape(w *ecs.World) string { return "" }

// LockCount is unknown (-1) without hooks.
func LockCount(w *ecs.World) int { return -1 }

// TableCounts is unknown without hooks.
func TableCounts(w *ecs.World) (int, int, int) { return -1, -1, -1 }
