package core

import (
	"fmt"
	"strings"

	"github.com/mlange-42/arche/ecs"
	"github.com/mlange-42/arche/filter"
)

// F is a filter expression. It is the *specification side* of filters: Eval implements the
// documented meaning over plain sets and shares no code with ecs.Mask; Compile builds the real
// arche filter value.
//
// Ids/Ex hold component indices of the case's universe (for C04: raw ID numbers).
type F struct {
	T      string `json:"t"`             // mask | without | excl | any | noneof | anynot | and | or | xor | not | rel
	Ids    []int  `json:"ids,omitempty"` // components
	Ex     []int  `json:"ex,omitempty"`  // excluded components (without)
	L      *F     `json:"l,omitempty"`
	R      *F     `json:"r,omitempty"`
	Target int    `json:"target,omitempty"` // rel: ordinal of the target entity, -1 = zero entity
	ByVal  bool   `json:"byval,omitempty"`  // mask: pass ecs.Mask by value instead of by pointer
}

// Set is the membership test of a component set.
type Set func(comp int) bool

// Eval evaluates the filter on a component set (membership test plus the number of members),
// ignoring relation targets (as Filter.Matches does).
func (f *F) Eval(has Set, n int) bool {
	switch f.T {
	case "mask":
		for _, c := range f.Ids {
			if !has(c) {
				return false
			}
		}
		return true
	case "without":
		for _, c := range f.Ids {
			if !has(c) {
				return false
			}
		}
		for _, c := range f.Ex {
			if has(c) {
				return false
			}
		}
		return true
	case "excl":
		// exactly the included ones
		uniq := 0
		for i, c := range f.Ids {
			if !has(c) {
				return false
			}
			dup := false
			for _, d := range f.Ids[:i] {
				if d == c {
					dup = true
				}
			}
			if !dup {
				uniq++
			}
		}
		return uniq == n
	case "any":
		for _, c := range f.Ids {
			if has(c) {
				return true
			}
		}
		return false
	case "noneof":
		for _, c := range f.Ids {
			if has(c) {
				return false
			}
		}
		return true
	case "anynot":
		for _, c := range f.Ids {
			if !has(c) {
				return true
			}
		}
		return false
	case "and":
		return f.L.Eval(has, n) && f.R.Eval(has, n)
	case "or":
		return f.L.Eval(has, n) || f.R.Eval(has, n)
	case "xor":
		return f.L.Eval(has, n) != f.R.Eval(has, n)
	case "not":
		return !f.L.Eval(has, n)
	case "rel":
		return f.L.Eval(has, n)
	}
	panic("unknown filter node " + f.T)
}

// EvalSet evaluates the filter on a set given as a list of distinct members.
func (f *F) EvalSet(members []int) bool {
	in := map[int]bool{}
	for _, m := range members {
		in[m] = true
	}
	return f.Eval(func(c int) bool { return in[c] }, len(in))
}

// Depth returns the nesting depth (a leaf has depth 1).
func (f *F) Depth() int {
	d := 0
	if f.L != nil {
		d = f.L.Depth()
	}
	if f.R != nil {
		if r := f.R.Depth(); r > d {
			d = r
		}
	}
	return d + 1
}

// Mentioned appends all component indices the expression mentions.
func (f *F) Mentioned(dst []int) []int {
	dst = append(dst, f.Ids...)
	dst = append(dst, f.Ex...)
	if f.L != nil {
		dst = f.L.Mentioned(dst)
	}
	if f.R != nil {
		dst = f.R.Mentioned(dst)
	}
	return dst
}

// HasRel reports whether the expression contains a relation filter anywhere.
func (f *F) HasRel() bool {
	if f.T == "rel" {
		return true
	}
	return (f.L != nil && f.L.HasRel()) || (f.R != nil && f.R.HasRel())
}

func (f *F) String() string {
	ids := func(v []int) string {
		s := make([]string, len(v))
		for i, x := range v {
			s[i] = fmt.Sprint(x)
		}
		return strings.Join(s, ",")
	}
	switch f.T {
	case "mask":
		if f.ByVal {
			return "All(" + ids(f.Ids) + ")"
		}
		return "&All(" + ids(f.Ids) + ")"
	case "without":
		return "All(" + ids(f.Ids) + ").Without(" + ids(f.Ex) + ")"
	case "excl":
		return "All(" + ids(f.Ids) + ").Exclusive()"
	case "any":
		return "Any(" + ids(f.Ids) + ")"
	case "noneof":
		return "NoneOf(" + ids(f.Ids) + ")"
	case "anynot":
		return "AnyNot(" + ids(f.Ids) + ")"
	case "and":
		return "And(" + f.L.String() + "," + f.R.String() + ")"
	case "or":
		return "Or(" + f.L.String() + "," + f.R.String() + ")"
	case "xor":
		return "XOr(" + f.L.String() + "," + f.R.String() + ")"
	case "not":
		return "Not(" + f.L.String() + ")"
	case "rel":
		return fmt.Sprintf("Rel(%s -> #%d)", f.L.String(), f.Target)
	}
	return "?" + f.T
}

// Compile builds the arche filter. id maps a component index to the real ID, target maps an
// entity ordinal (-1 = zero) to the real handle.
func (f *F) Compile(id func(int) ecs.ID, target func(int) ecs.Entity) ecs.Filter {
	mk := func(v []int) []ecs.ID {
		out := make([]ecs.ID, len(v))
		for i, c := range v {
			out[i] = id(c)
		}
		return out
	}
	switch f.T {
	case "mask":
		if f.ByVal {
			// by value, and through package filter's own All
			return filter.All(mk(f.Ids)...)
		}
		m := ecs.All(mk(f.Ids)...)
		return &m
	case "without":
		m := ecs.All(mk(f.Ids)...).Without(mk(f.Ex)...)
		return &m
	case "excl":
		m := ecs.All(mk(f.Ids)...).Exclusive()
		return &m
	case "any":
		return filter.Any(mk(f.Ids)...)
	case "noneof":
		return filter.NoneOf(mk(f.Ids)...)
	case "anynot":
		return filter.AnyNot(mk(f.Ids)...)
	case "and":
		return filter.And(f.L.Compile(id, target), f.R.Compile(id, target))
	case "or":
		return filter.Or(f.L.Compile(id, target), f.R.Compile(id, target))
	case "xor":
		return filter.XOr(f.L.Compile(id, target), f.R.Compile(id, target))
	case "not":
		return filter.Not(f.L.Compile(id, target))
	case "rel":
		var tg ecs.Entity
		if target != nil {
			tg = target(f.Target)
		}
		rf := ecs.NewRelationFilter(f.L.Compile(id, target), tg)
		return &rf
	}
	panic("unknown filter node " + f.T)
}
