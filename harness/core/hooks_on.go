//go:build verif

package core

import "github.com/mlange-42/arche/ecs"

// HooksEnabled reports whether the harness was built against the verif-tagged hooks.
const HooksEnabled = true

// CheckInvariants runs the structural invariant walk of the hook.
func CheckInvariants(w *ecs.World) error { return w.VerifCheckInvariants() }

// Shape returns the canonical text of the hidden state.
func Shape(w *ecs.World) string { return w.VerifShape() }

// LockCount returns the number of held locks (-1 without hooks).
func LockCount(w *ecs.World) int { return w.VerifLockCount() }

// TableCounts returns (active, retired, emptyDeadTarget) relation tables.
func TableCounts(w *ecs.World) (int, int, int) { return w.VerifTableCounts() }
