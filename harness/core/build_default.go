//go:build !tiny

package core

// BuildName names the mask-width build of arche the harness was compiled against.
func BuildName() string { return "default" }
