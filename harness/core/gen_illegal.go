package core

import (
	"pgregory.net/rapid"
)

// Illegal-argument classes (DESIGN appendix B) that can be expressed as ops of the grammar.
const (
	IllDeadEntity   = "dead-entity"
	IllAddPresent   = "add-present"
	IllRemoveAbsent = "remove-absent"
	IllDupIDs       = "dup-ids"
	IllAddAndRemove = "add-and-remove"
	IllSecondRel    = "second-relation"
	IllRelMissing   = "rel-missing"
	IllRelNotRel    = "rel-not-relation"
	IllNoBuilderRel = "target-without-relation"
	IllDeadTarget   = "dead-target"
	IllCount        = "count<=0"
	IllNoComps      = "no-components"
	IllSetMissing   = "set-missing"
	IllResPresent   = "resource-present"
	IllResAbsent    = "resource-absent"
)

// AllIllegal lists every class DrawIllegal knows.
var AllIllegal = []string{IllDeadEntity, IllAddPresent, IllRemoveAbsent, IllDupIDs, IllAddAndRemove, IllSecondRel,
	IllRelMissing, IllRelNotRel, IllNoBuilderRel, IllDeadTarget, IllCount, IllNoComps, IllSetMissing, IllResPresent, IllResAbsent}

func pick(t *rapid.T, v []int, label string) int {
	return v[rapid.IntRange(0, len(v)-1).Draw(t, label)]
}

func pickS(t *rapid.T, v []string, label string) string {
	return v[rapid.IntRange(0, len(v)-1).Draw(t, label)]
}

// DrawIllegal draws an op of one of the given illegal classes; ok=false if the current model
// state offers no instance of any of them.
func (g *Gen) DrawIllegal(t *rapid.T, classes []string) (Op, bool) {
	for try := 0; try < 6; try++ {
		cl := pickS(t, classes, "illclass")
		if op, ok := g.drawIllegal(t, cl); ok {
			op.Ill = cl
			return op, true
		}
	}
	return Op{}, false
}

func (g *Gen) plainComps() []int { return seq(len(g.M.U.Plain)) }

// maybeVals lets a builder op carry component values in half of the cases (the builder with values
// takes other paths through the world, with their own argument checks).
func (g *Gen) maybeVals(t *rapid.T, op *Op) {
	if len(op.Add) > 0 && rapid.Bool().Draw(t, "vals") {
		op.Vals = true
		op.Tok = g.toks(t, len(op.Add))
	}
}

func (g *Gen) drawIllegal(t *rapid.T, cl string) (Op, bool) {
	m := g.M
	dead := m.DeadOrds()
	n := m.U.N()
	rels := g.relComps()
	switch cl {
	case IllDeadEntity:
		if len(dead) == 0 {
			return Op{}, false
		}
		e := dead[len(dead)-1-rapid.IntRange(0, min(3, len(dead)-1)).Draw(t, "dead")]
		k := pickS(t, []string{OpRemoveEnt, OpAdd, OpRemove, OpExchange, OpAssign, OpSet, OpRelSet, OpRelExchange, OpBuildAdd}, "k")
		op := Op{K: k, E: e, T: TNone}
		c := rapid.IntRange(0, n-1).Draw(t, "c")
		switch k {
		case OpAdd, OpAssign, OpBuildAdd:
			op.Add = []int{c}
			op.Tok = g.toks(t, 1)
		case OpRemove:
			op.Rem = []int{c}
		case OpExchange:
			op.Add = []int{c}
		case OpSet:
			op.C = c
			op.Tok = g.toks(t, 1)
		case OpRelSet:
			if len(rels) == 0 {
				return Op{}, false
			}
			op.C = pick(t, rels, "rel")
			op.T = TZero
		case OpRelExchange:
			if len(rels) == 0 {
				return Op{}, false
			}
			op.C = pick(t, rels, "rel")
			op.Add = []int{op.C}
			op.T = TZero
		}
		return op, true

	case IllAddPresent:
		e, ok := g.pickWith(t, func(s EntState) bool { return s.Comps != 0 })
		if !ok {
			return Op{}, false
		}
		st := m.Ents[e].EntState
		present := pick(t, st.List(), "present")
		add := append(g.oneRel(subset(t, g.absent(st), 0, "add"), m.RelOf(st.Comps) >= 0), present)
		add = rapid.Permutation(add).Draw(t, "order")
		k := pickS(t, []string{OpAdd, OpAssign, OpExchange, OpBuildAdd}, "k")
		op := Op{K: k, E: e, Add: add, T: TNone, Tok: g.toks(t, len(add))}
		if k == OpBuildAdd {
			op.Vals = rapid.Bool().Draw(t, "vals")
		}
		return op, true

	case IllRemoveAbsent:
		e, ok := g.pickWith(t, func(s EntState) bool { return s.Count() < n })
		if !ok {
			return Op{}, false
		}
		st := m.Ents[e].EntState
		rem := append(subset(t, st.List(), 0, "rem"), pick(t, g.absent(st), "absent"))
		rem = rapid.Permutation(rem).Draw(t, "order")
		return Op{K: pickS(t, []string{OpRemove, OpExchange}, "k"), E: e, Rem: rem}, true

	case IllDupIDs:
		k := pickS(t, []string{OpNew, OpNewWith, OpBuildNew, OpAdd, OpAssign, OpRemove, OpExchange}, "k")
		switch k {
		case OpNew, OpNewWith, OpBuildNew:
			cs := g.oneRel(subset(t, g.allComps(), 1, "comps"), false)
			cs = append(cs, pick(t, cs, "dup"))
			cs = rapid.Permutation(cs).Draw(t, "order")
			op := Op{K: k, Add: cs, Tok: g.toks(t, len(cs)), T: TNone, N: 1}
			if k == OpBuildNew {
				op.Vals = rapid.Bool().Draw(t, "vals")
			}
			return op, true
		case OpAdd, OpAssign, OpExchange:
			e, ok := g.pickWith(t, func(s EntState) bool { return s.Count() < n })
			if !ok {
				return Op{}, false
			}
			st := m.Ents[e].EntState
			cands := g.oneRel(g.absent(st), m.RelOf(st.Comps) >= 0)
			if len(cands) == 0 {
				return Op{}, false
			}
			add := g.oneRel(subset(t, cands, 1, "add"), m.RelOf(st.Comps) >= 0)
			add = append(add, pick(t, add, "dup"))
			return Op{K: k, E: e, Add: add, Tok: g.toks(t, len(add)), T: TNone}, true
		default:
			e, ok := g.pickWith(t, func(s EntState) bool { return s.Comps != 0 })
			if !ok {
				return Op{}, false
			}
			rem := subset(t, m.Ents[e].List(), 1, "rem")
			rem = append(rem, pick(t, rem, "dup"))
			return Op{K: OpRemove, E: e, Rem: rem}, true
		}

	case IllAddAndRemove:
		e, ok := g.pickWith(t, func(s EntState) bool { return s.Comps != 0 })
		if !ok {
			return Op{}, false
		}
		c := pick(t, m.Ents[e].List(), "c")
		return Op{K: OpExchange, E: e, Add: []int{c}, Rem: []int{c}}, true

	case IllSecondRel:
		if len(rels) < 2 {
			return Op{}, false
		}
		if rapid.Bool().Draw(t, "oncreate") {
			two := rapid.Permutation(rels).Draw(t, "two")[:2]
			cs := append(subset(t, g.plainComps(), 0, "comps"), two...)
			k := pickS(t, []string{OpNew, OpNewWith, OpBuildNew}, "k")
			return Op{K: k, Add: cs, Tok: g.toks(t, len(cs)), T: TNone, N: 1}, true
		}
		e, ok := g.pickWith(t, func(s EntState) bool { return m.RelOf(s.Comps) >= 0 })
		if !ok {
			return Op{}, false
		}
		other := minus(rels, []int{m.RelOf(m.Ents[e].Comps)})
		add := []int{pick(t, other, "other")}
		k := pickS(t, []string{OpAdd, OpAssign, OpExchange, OpBuildAdd}, "k")
		return Op{K: k, E: e, Add: add, Tok: g.toks(t, 1), T: TNone}, true

	case IllRelMissing:
		if len(rels) == 0 {
			return Op{}, false
		}
		r := pick(t, rels, "rel")
		switch rapid.IntRange(0, 4).Draw(t, "how") {
		case 4: // Relations.ExchangeBatch whose result lacks the named relation, through the exclusive filter of one entity's set
			e, ok := g.pickWith(t, func(s EntState) bool { return !s.Has(r) && s.Count() < n })
			if !ok {
				return Op{}, false
			}
			st := m.Ents[e].EntState
			cands := minus(g.absent(st), rels)
			if len(cands) == 0 {
				return Op{}, false
			}
			return Op{K: OpRelExchB, F: &F{T: "excl", Ids: st.List()}, Add: []int{pick(t, cands, "add")}, C: r, T: g.pickTarget(t, e), Q: rapid.Bool().Draw(t, "q")}, true
		case 3: // Batch.SetRelation / Relations.SetBatch through a filter that also matches entities without the relation
			lacking, ok := g.pickWith(t, func(s EntState) bool { return !s.Has(r) })
			if !ok {
				return Op{}, false
			}
			tgt, ok := g.pickWith(t, func(EntState) bool { return true })
			if !ok {
				return Op{}, false
			}
			// (a table whose current target already IS the new target is skipped before the component is
			// looked at - whether that should panic is the ambiguity of DESIGN section 7; the entity found
			// above must therefore sit in a table with another target, e.g. none)
			if cur := m.Ents[lacking]; m.RelOf(cur.Comps) >= 0 && cur.Target == tgt {
				return Op{}, false
			}
			// a filter that does not ask for the relation component: everything, or one plain component
			// (it matches the entity found above)
			f := &F{T: "mask"}
			if has := m.Ents[lacking].EntState.List(); len(has) > 0 && rapid.Bool().Draw(t, "bycomp") {
				f = &F{T: "mask", Ids: []int{pick(t, has, "comp")}}
			}
			return Op{K: OpBatchSetRel, F: f, C: r, T: tgt, Q: rapid.Bool().Draw(t, "q"), V: rapid.IntRange(0, 1).Draw(t, "viaRelations")}, true
		case 0: // Relations.Set on an entity that lacks the relation component
			e, ok := g.pickWith(t, func(s EntState) bool { return !s.Has(r) })
			if !ok {
				return Op{}, false
			}
			return Op{K: OpRelSet, E: e, C: r, T: g.pickTarget(t, e)}, true
		case 1: // builder names a relation that is not among the created components
			cs := subset(t, g.plainComps(), 0, "comps")
			k := pickS(t, []string{OpBuildNew, OpBuildBatch}, "k")
			op := Op{K: k, Add: cs, Rel: true, C: r, T: g.pickTarget(t, -1), N: rapid.IntRange(1, 3).Draw(t, "n"), Q: rapid.Bool().Draw(t, "q")}
			g.maybeVals(t, &op)
			return op, true
		default: // Relations.Exchange whose result lacks the named relation
			e, ok := g.pickWith(t, func(s EntState) bool { return !s.Has(r) && s.Count() < n })
			if !ok {
				return Op{}, false
			}
			st := m.Ents[e].EntState
			cands := minus(g.absent(st), rels)
			if len(cands) == 0 {
				return Op{}, false
			}
			return Op{K: OpRelExchange, E: e, Add: []int{pick(t, cands, "add")}, C: r, T: g.pickTarget(t, e)}, true
		}

	case IllRelNotRel:
		// a relation call naming a component that is not a relation (the entity has it)
		e, ok := g.pickWith(t, func(s EntState) bool { return s.Comps&setOf(g.plainComps()) != 0 })
		if !ok {
			return Op{}, false
		}
		st := m.Ents[e].EntState
		pl := []int{}
		for _, c := range st.List() {
			if !m.U.IsRel(c) {
				pl = append(pl, c)
			}
		}
		c := pick(t, pl, "c")
		switch rapid.IntRange(0, 3).Draw(t, "how") {
		case 3: // the batch form, through the exclusive filter of the entity's set
			cands := minus(g.absent(st), rels)
			if len(cands) == 0 {
				return Op{}, false
			}
			return Op{K: OpRelExchB, F: &F{T: "excl", Ids: st.List()}, Add: []int{pick(t, cands, "add")}, C: c, T: g.pickTarget(t, e), Q: rapid.Bool().Draw(t, "q")}, true
		case 0:
			return Op{K: OpRelSet, E: e, C: c, T: g.pickTarget(t, e)}, true
		case 1:
			cs := append(subset(t, minus(g.plainComps(), []int{c}), 0, "comps"), c)
			k := pickS(t, []string{OpBuildNew, OpBuildBatch}, "k")
			op := Op{K: k, Add: cs, Rel: true, C: c, T: g.pickTarget(t, -1), N: rapid.IntRange(1, 3).Draw(t, "n"), Q: rapid.Bool().Draw(t, "q")}
			g.maybeVals(t, &op)
			return op, true
		default:
			cands := minus(g.absent(st), rels)
			if len(cands) == 0 {
				return Op{}, false
			}
			return Op{K: OpRelExchange, E: e, Add: []int{pick(t, cands, "add")}, C: c, T: g.pickTarget(t, e)}, true
		}

	case IllNoBuilderRel:
		cs := g.createComps(t)
		k := pickS(t, []string{OpBuildNew, OpBuildBatch, OpBuildAdd}, "k")
		op := Op{K: k, Add: cs, T: g.pickTarget(t, -1), N: rapid.IntRange(1, 3).Draw(t, "n"), Q: rapid.Bool().Draw(t, "q")}
		if k == OpBuildAdd {
			e, ok := g.pickWith(t, func(s EntState) bool { return s.Count() < n })
			if !ok {
				return Op{}, false
			}
			st := m.Ents[e].EntState
			cands := g.oneRel(g.absent(st), m.RelOf(st.Comps) >= 0)
			if len(cands) == 0 {
				return Op{}, false
			}
			op.E = e
			op.Add = []int{pick(t, cands, "add")}
		}
		g.maybeVals(t, &op)
		return op, true

	case IllDeadTarget:
		if len(dead) == 0 || len(rels) == 0 {
			return Op{}, false
		}
		tg := dead[len(dead)-1-rapid.IntRange(0, min(4, len(dead)-1)).Draw(t, "deadt")]
		r := pick(t, rels, "rel")
		k := pickS(t, []string{OpBuildNew, OpBuildBatch, OpBuildAdd, OpRelExchange, OpRelSet, OpBatchSetRel, OpRelExchB}, "k")
		switch k {
		case OpBuildNew, OpBuildBatch:
			cs := append(subset(t, g.plainComps(), 0, "comps"), r)
			op := Op{K: k, Add: cs, Rel: true, C: r, T: tg, N: rapid.IntRange(1, 3).Draw(t, "n"), Q: rapid.Bool().Draw(t, "q")}
			if rapid.Bool().Draw(t, "vals") {
				op.Vals = true
				op.Tok = g.toks(t, len(cs))
			}
			return op, true
		case OpBuildAdd, OpRelExchange:
			// add relation r (with dead target) to an entity without relation, or move other
			// components of an entity that has r
			e, ok := g.pickWith(t, func(s EntState) bool { return m.RelOf(s.Comps) < 0 || (s.Has(r) && s.Count() < n) })
			if !ok {
				return Op{}, false
			}
			st := m.Ents[e].EntState
			op := Op{K: k, E: e, Rel: true, C: r, T: tg}
			if st.Has(r) {
				cands := minus(g.absent(st), rels)
				if len(cands) == 0 {
					return Op{}, false
				}
				op.Add = []int{pick(t, cands, "add")}
			} else {
				op.Add = []int{r}
			}
			if k == OpBuildAdd && rapid.Bool().Draw(t, "vals") {
				op.Vals = true
				op.Tok = g.toks(t, len(op.Add))
			}
			return op, true
		case OpRelSet:
			e, ok := g.pickWith(t, func(s EntState) bool { return m.RelOf(s.Comps) >= 0 })
			if !ok {
				return Op{}, false
			}
			return Op{K: k, E: e, C: m.RelOf(m.Ents[e].Comps), T: tg}, true
		case OpBatchSetRel:
			// needs at least one matching entity whose target differs (else nothing is assigned)
			if _, ok := g.pickWith(t, func(s EntState) bool { return s.Has(r) }); !ok {
				return Op{}, false
			}
			return Op{K: k, C: r, T: tg, F: &F{T: "mask", Ids: []int{r}}, Q: rapid.Bool().Draw(t, "q"), V: rapid.IntRange(0, 1).Draw(t, "api")}, true
		default: // OpRelExchB: add relation r with the dead target to entities without relation
			if _, ok := g.pickWith(t, func(s EntState) bool { return m.RelOf(s.Comps) < 0 }); !ok {
				return Op{}, false
			}
			return Op{K: k, C: r, T: tg, Add: []int{r}, F: &F{T: "without", Ex: rels}, Q: rapid.Bool().Draw(t, "q")}, true
		}

	case IllCount:
		cs := g.createComps(t)
		op := Op{K: OpBuildBatch, Add: cs, T: TNone, N: rapid.SampledFrom([]int{0, -1, -7}).Draw(t, "n"), Q: rapid.Bool().Draw(t, "q")}
		if len(cs) > 0 && rapid.Bool().Draw(t, "vals") {
			// the builder with component values counts for itself
			op.Vals = true
			op.Tok = g.toks(t, len(cs))
		}
		return op, true

	case IllNoComps:
		if m.NAlive == 0 {
			return Op{}, false
		}
		e := g.pickAlive(t, "e")
		switch rapid.IntRange(0, 3).Draw(t, "how") {
		case 3: // Relations.ExchangeBatch without components but with a relation (Batch.SetRelation is the call for that)
			if len(rels) == 0 {
				return Op{}, false
			}
			r := pick(t, rels, "rel")
			e2, ok := g.pickWith(t, func(s EntState) bool { return s.Has(r) })
			if !ok {
				return Op{}, false
			}
			return Op{K: OpRelExchB, F: &F{T: "mask", Ids: []int{r}}, C: r, T: g.pickTarget(t, e2), Q: rapid.Bool().Draw(t, "q")}, true
		case 0:
			return Op{K: OpAssign, E: e, T: TNone}, true
		case 1:
			return Op{K: OpBuildAdd, E: e, T: TNone, Vals: true}, true
		default:
			if len(rels) == 0 {
				return Op{}, false
			}
			return Op{K: OpRelExchange, E: e, C: pick(t, rels, "rel"), T: TZero}, true
		}

	case IllResPresent, IllResAbsent:
		cands := []int{}
		for r := 0; r < NumRes; r++ {
			if m.Res[r] == (cl == IllResPresent) {
				cands = append(cands, r)
			}
		}
		if len(cands) == 0 {
			return Op{}, false
		}
		k := OpResAdd
		if cl == IllResAbsent {
			k = OpResRemove
		}
		return Op{K: k, C: pick(t, cands, "res")}, true

	case IllSetMissing:
		e, ok := g.pickWith(t, func(s EntState) bool { return s.Count() < n })
		if !ok {
			return Op{}, false
		}
		return Op{K: OpSet, E: e, C: pick(t, g.absent(m.Ents[e].EntState), "c"), Tok: g.toks(t, 1)}, true
	}
	return Op{}, false
}

// pickWith draws an alive entity whose state satisfies pred.
func (g *Gen) pickWith(t *rapid.T, pred func(EntState) bool) (int, bool) {
	cands := []int{}
	for i := range g.M.Ents {
		if g.M.Ents[i].Alive && pred(g.M.Ents[i].EntState) {
			cands = append(cands, i)
		}
	}
	if len(cands) == 0 {
		return 0, false
	}
	return pick(t, cands, "ent"), true
}
