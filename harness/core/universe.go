package core

import (
	"fmt"
	"reflect"
	"unsafe"

	"github.com/mlange-42/arche/ecs"
)

// CompSpec describes one component type of the pool.
type CompSpec struct {
	Name    string
	Type    reflect.Type
	Size    int    // reflect size
	Rel     bool   // ecs.Relation embedded as first field
	ValMask []byte // 0xff for bytes that belong to a field, 0 for padding
}

var (
	relationType = reflect.TypeOf(ecs.Relation{})
	tByte        = reflect.TypeOf(byte(0))
	tU16         = reflect.TypeOf(uint16(0))
	tU32         = reflect.TypeOf(uint32(0))
	tU64         = reflect.TypeOf(uint64(0))
)

func relField() reflect.StructField {
	return reflect.StructField{Name: "Relation", Type: relationType, Anonymous: true}
}

func fld(name string, tp reflect.Type) reflect.StructField {
	return reflect.StructField{Name: name, Type: tp}
}

// fieldMask computes which bytes of a value of type tp belong to fields (not padding).
func fieldMask(tp reflect.Type) []byte {
	m := make([]byte, tp.Size())
	var mark func(tp reflect.Type, off uintptr)
	mark = func(tp reflect.Type, off uintptr) {
		switch tp.Kind() {
		case reflect.Struct:
			for i := 0; i < tp.NumField(); i++ {
				f := tp.Field(i)
				mark(f.Type, off+f.Offset)
			}
		case reflect.Array:
			for i := 0; i < tp.Len(); i++ {
				mark(tp.Elem(), off+uintptr(i)*tp.Elem().Size())
			}
		default:
			for i := uintptr(0); i < tp.Size(); i++ {
				m[off+i] = 0xff
			}
		}
	}
	mark(tp, 0)
	return m
}

func spec(name string, tp reflect.Type) CompSpec {
	rel := false
	if tp.Kind() == reflect.Struct && tp.NumField() > 0 {
		f := tp.Field(0)
		rel = f.Anonymous && f.Type == relationType
	}
	return CompSpec{Name: name, Type: tp, Size: int(tp.Size()), Rel: rel, ValMask: fieldMask(tp)}
}

// PlainPool and RelPool are the component type shapes cases draw from. All are pointer-free
// (C14 uses its own pointer-holding types).
var PlainPool = []CompSpec{
	spec("struct{}", reflect.StructOf(nil)),
	spec("[1]byte", reflect.ArrayOf(1, tByte)),
	spec("[3]byte", reflect.ArrayOf(3, tByte)),
	spec("uint64", tU64),
	spec("[3]uint32", reflect.ArrayOf(3, tU32)),
	spec("[3]uint64", reflect.ArrayOf(3, tU64)),
	spec("struct{A uint8;B uint64;C [3]uint64}", reflect.StructOf([]reflect.StructField{fld("A", tByte), fld("B", tU64), fld("C", reflect.ArrayOf(3, tU64))})),
	spec("[300]byte", reflect.ArrayOf(300, tByte)),
	spec("struct{V [2]uint64;ecs.Relation}", reflect.StructOf([]reflect.StructField{fld("V", reflect.ArrayOf(2, tU64)), relField()})),
	spec("[0]int", reflect.ArrayOf(0, reflect.TypeOf(int(0)))),
	spec("uint16", tU16),
	spec("struct{A uint16;B uint8}", reflect.StructOf([]reflect.StructField{fld("A", tU16), fld("B", tByte)})),
	spec("struct{A uint32;B [5]byte}", reflect.StructOf([]reflect.StructField{fld("A", tU32), fld("B", reflect.ArrayOf(5, tByte))})),
	// HugePlain: larger than 64 KiB (sizes and offsets that do not fit 16 bits); drawn rarely and on purpose
	spec("[66000]byte", reflect.ArrayOf(66000, tByte)),
}

// HugePlain is the index of the > 64 KiB component type in PlainPool; GenUniverse draws the ordinary
// shapes from the indices before it.
var HugePlain = len(PlainPool) - 1

// RelPool holds relation component types (ecs.Relation embedded first).
var RelPool = []CompSpec{
	spec("struct{ecs.Relation}", reflect.StructOf([]reflect.StructField{relField()})),
	spec("struct{ecs.Relation;V uint64}", reflect.StructOf([]reflect.StructField{relField(), fld("V", tU64)})),
	spec("struct{ecs.Relation;V [2]uint32}", reflect.StructOf([]reflect.StructField{relField(), fld("V", reflect.ArrayOf(2, tU32))})),
	spec("struct{ecs.Relation;A uint8;B uint32}", reflect.StructOf([]reflect.StructField{relField(), fld("A", tByte), fld("B", tU32)})),
}

// Universe is the component setup of one case: which pool types are active and on which IDs
// they are registered. It is plain data (JSON) so that replays rebuild it exactly.
type Universe struct {
	Plain []int `json:"plain"` // indices into PlainPool, in component-index order
	Rel   []int `json:"rel"`   // indices into RelPool; component indices continue after Plain
	IDs   []int `json:"ids"`   // component index -> raw ID the type is registered on
	Cap   int   `json:"cap"`   // CapacityIncrement
	RCap  int   `json:"rcap"`  // RelationCapacityIncrement (0 = same)
	// FullRes: the resource registry is filled to the limit (filler resource types after the model's).
	FullRes bool `json:"fullres,omitempty"`
	// Salt != 0: the component types are wrapped into fresh struct types named after the salt.
	Salt   int `json:"salt,omitempty"`
	salted []CompSpec
}

// N returns the number of active components.
func (u *Universe) N() int { return len(u.Plain) + len(u.Rel) }

// Spec returns the spec of component index c.
func (u *Universe) Spec(c int) *CompSpec {
	if u.Salt != 0 {
		if u.salted == nil {
			u.Prepare()
		}
		return &u.salted[c]
	}
	if c < len(u.Plain) {
		return &PlainPool[u.Plain[c]]
	}
	return &RelPool[u.Rel[c-len(u.Plain)]]
}

// Prepare builds the salted component types (see Salt). It must be called before the universe
// is used from several goroutines.
func (u *Universe) Prepare() {
	if u.Salt == 0 || u.salted != nil {
		return
	}
	name := fmt.Sprintf("S%d", u.Salt)
	out := make([]CompSpec, 0, u.N())
	for _, p := range u.Plain {
		o := &PlainPool[p]
		tp := reflect.StructOf([]reflect.StructField{fld(name, o.Type)})
		out = append(out, spec(o.Name+" salted "+name, tp))
	}
	for _, r := range u.Rel {
		o := &RelPool[r]
		// keep ecs.Relation embedded first; wrap the remaining fields
		rest := []reflect.StructField{}
		for i := 1; i < o.Type.NumField(); i++ {
			rest = append(rest, o.Type.Field(i))
		}
		inner := reflect.StructOf(rest)
		tp := reflect.StructOf([]reflect.StructField{relField(), fld(name, inner)})
		out = append(out, spec(o.Name+" salted "+name, tp))
	}
	u.salted = out
}

// WithSalt returns a copy of the universe whose component types are fresh Go types (same
// shapes and layouts, different identity): types the process has never seen before.
func (u *Universe) WithSalt(salt int) *Universe {
	c := *u
	c.Salt = salt
	c.salted = nil
	c.Prepare()
	return &c
}

// IsRel reports whether component index c is a relation component.
func (u *Universe) IsRel(c int) bool { return c >= len(u.Plain) }

// MaxID returns the highest ID used.
func (u *Universe) MaxID() int {
	m := -1
	for _, id := range u.IDs {
		if id > m {
			m = id
		}
	}
	return m
}

// Validate checks the plain-data universe (used for replay files).
func (u *Universe) Validate() error {
	if len(u.IDs) != u.N() {
		return fmt.Errorf("universe: %d ids for %d components", len(u.IDs), u.N())
	}
	seen := map[int]bool{}
	for _, id := range u.IDs {
		if id < 0 || id >= ecs.MaskTotalBits || seen[id] {
			return fmt.Errorf("universe: bad or duplicate id %d", id)
		}
		seen[id] = true
	}
	if u.Cap < 1 {
		return fmt.Errorf("universe: capacity increment %d", u.Cap)
	}
	return nil
}

// Register registers the universe's types on a world so that every active component lands on
// its ID; all lower IDs are occupied by filler types. Returns component index -> ecs.ID.
func (u *Universe) Register(w *ecs.World) []ecs.ID {
	byID := map[int]int{}
	for c, id := range u.IDs {
		byID[id] = c
	}
	out := make([]ecs.ID, u.N())
	for id := 0; id <= u.MaxID(); id++ {
		if c, ok := byID[id]; ok {
			out[c] = ecs.TypeID(w, u.Spec(c).Type)
		} else {
			if u.Salt != 0 && u.MaxID() < 40 {
				ecs.TypeID(w, FillerType(1000*u.Salt+id)) // fresh filler types too (few of them)
			} else {
				ecs.TypeID(w, FillerType(id))
			}
		}
	}
	return out
}

// NewWorld creates a world with the universe's configuration.
func (u *Universe) NewWorld() *ecs.World {
	w := ecs.NewWorld(ecs.NewConfig().WithCapacityIncrement(u.Cap).WithRelationCapacityIncrement(u.RCap))
	return &w
}

// Expand turns a value token into the bytes of a component value: deterministic, and non-zero
// in (almost) every byte so that a lost or zeroed byte is visible. Token 0 is the zero value.
func Expand(tok uint32, size int) []byte {
	b := make([]byte, size)
	if tok == 0 {
		return b
	}
	x := uint64(tok)*0x9E3779B97F4A7C15 + 0x1234567
	for i := range b {
		x ^= x >> 29
		x *= 0xBF58476D1CE4E5B9
		x ^= x >> 32
		v := byte(x)
		if v == 0 {
			v = byte(tok) | 1
		}
		b[i] = v
	}
	return b
}

// Masked returns b with padding bytes cleared.
func (s *CompSpec) Masked(b []byte) []byte {
	out := make([]byte, len(b))
	for i := range b {
		out[i] = b[i] & s.ValMask[i]
	}
	return out
}

// NewValue allocates a value of the component type holding the given bytes and returns it as
// the pointer-in-interface the ID-based API expects.
func (s *CompSpec) NewValue(b []byte) any {
	v := reflect.New(s.Type)
	if s.Size > 0 {
		dst := unsafe.Slice((*byte)(v.UnsafePointer()), s.Size)
		copy(dst, b)
	}
	return v.Interface()
}

// ReadBytes copies the component bytes behind p.
func (s *CompSpec) ReadBytes(p unsafe.Pointer) []byte {
	if s.Size == 0 {
		return []byte{}
	}
	out := make([]byte, s.Size)
	copy(out, unsafe.Slice((*byte)(p), s.Size))
	return out
}

// WriteBytes writes the component bytes behind p (a write "through the Get pointer").
func (s *CompSpec) WriteBytes(p unsafe.Pointer, b []byte) {
	if s.Size == 0 {
		return
	}
	copy(unsafe.Slice((*byte)(p), s.Size), b)
}
