package core

import (
	"bytes"
	"fmt"
	"sort"

	"github.com/mlange-42/arche/ecs"
	"github.com/mlange-42/arche/ecs/event"
)

// RecEvent is one delivered event plus what the world looked like at delivery time.
type RecEvent struct {
	Evt        ecs.EntityEvent
	Locked     bool
	Locks      int // number of locks held (-1 without hooks)
	Alive      bool
	Mask       ecs.Mask
	HasNew     bool
	NewTarget  ecs.Entity
	StructOK   bool // a structural call made from inside the listener did NOT panic
	StructTry  bool // whether such a call was attempted
	ProbeError string
	Vals       map[int][]byte // component values read inside the callback (non-removal events)
	QueryError string         // what a query opened inside the callback got wrong
}

// Recorder is a listener that records every event. Subs/Comps configure what it subscribes
// to (C12); the default is everything, unrestricted.
type Recorder struct {
	Subs  event.Subscription
	Comps *ecs.Mask
	All   []RecEvent // everything since installation
	Cur   []RecEvent // events of the current op
	Probe func(w *ecs.World, e ecs.EntityEvent) string
	// QueryInside: open a Query(All()) inside every callback and judge what it visits.
	QueryInside bool
	// ReadVals reads the entity's component values inside the callback (component index -> bytes).
	ReadVals func(w *ecs.World, e ecs.Entity) map[int][]byte
	TryWrite bool // attempt a structural call inside removal events
}

// Notify implements ecs.Listener.
func (r *Recorder) Notify(w *ecs.World, e ecs.EntityEvent) {
	re := RecEvent{Evt: e, Locked: w.IsLocked(), Locks: LockCount(w), Alive: w.Alive(e.Entity)}
	// the ID slices belong to the world: copy
	re.Evt.AddedIDs = append([]ecs.ID{}, e.AddedIDs...)
	re.Evt.RemovedIDs = append([]ecs.ID{}, e.RemovedIDs...)
	if e.OldRelation != nil {
		v := *e.OldRelation
		re.Evt.OldRelation = &v
	}
	if e.NewRelation != nil {
		v := *e.NewRelation
		re.Evt.NewRelation = &v
	}
	if re.Alive && r.ReadVals != nil && !e.EventTypes.Contains(event.EntityRemoved) {
		re.Vals = r.ReadVals(w, e.Entity)
	}
	if re.Alive {
		re.Mask = w.Mask(e.Entity)
		if e.NewRelation != nil && !e.EventTypes.Contains(event.EntityRemoved) {
			p := Call(func() { re.NewTarget = w.Relations().Get(e.Entity, *e.NewRelation) })
			re.HasNew = p == nil
		}
	}
	if r.TryWrite && e.EventTypes.Contains(event.EntityRemoved) {
		re.StructTry = true
		p := Call(func() { w.NewEntity() })
		re.StructOK = p == nil
	}
	if r.QueryInside {
		// a query opened inside the callback (legal also in removal events: the world is only
		// locked) visits alive entities only, each once
		seen := map[ecs.Entity]bool{}
		q := w.Query(ecs.All())
		for q.Next() {
			x := q.Entity()
			if !w.Alive(x) {
				re.QueryError = fmt.Sprintf("Query(All()) opened inside the callback for %v (event types %06b) visits %v, which is not alive", e.Entity, e.EventTypes, x)
				q.Close()
				break
			}
			if seen[x] {
				re.QueryError = fmt.Sprintf("Query(All()) opened inside the callback for %v (event types %06b) visits %v twice", e.Entity, e.EventTypes, x)
				q.Close()
				break
			}
			seen[x] = true
		}
		if re.QueryError == "" && len(seen) != w.Stats().Entities.Used {
			re.QueryError = fmt.Sprintf("Query(All()) opened inside the callback for %v (event types %06b) visits %d entities, Stats reports %d alive", e.Entity, e.EventTypes, len(seen), w.Stats().Entities.Used)
		}
	}
	if r.Probe != nil {
		re.ProbeError = r.Probe(w, e)
	}
	r.All = append(r.All, re)
	r.Cur = append(r.Cur, re)
}

// Subscriptions implements ecs.Listener.
func (r *Recorder) Subscriptions() event.Subscription { return r.Subs }

// Components implements ecs.Listener.
func (r *Recorder) Components() *ecs.Mask { return r.Comps }

// Begin starts the event window of an op.
func (r *Recorder) Begin() { r.Cur = r.Cur[:0] }

// InstallRecorder installs a recorder subscribed to everything.
func (b *WB) InstallRecorder() {
	b.Rec = &Recorder{Subs: event.All, TryWrite: true, ReadVals: b.readVals, QueryInside: true}
	if HooksEnabled {
		// "events are emitted after the change is applied" (removal events: before the removal): in
		// both cases the world a callback looks at is a complete, consistent one
		b.Rec.Probe = func(w *ecs.World, e ecs.EntityEvent) string {
			if err := CheckInvariants(w); err != nil {
				return "the world is not in a consistent state inside the callback: " + err.Error()
			}
			return ""
		}
	}
	b.W.SetListener(b.Rec)
}

// readVals reads every component value of an entity (masked field bytes), for use inside callbacks.
func (b *WB) readVals(w *ecs.World, e ecs.Entity) map[int][]byte {
	out := map[int][]byte{}
	for c := 0; c < b.U.N(); c++ {
		if p := w.Get(e, b.IDs[c]); p != nil {
			s := b.U.Spec(c)
			out[c] = s.Masked(s.ReadBytes(p))
		}
	}
	return out
}

// checkDeliveryValues: an event (other than a removal) is delivered after the change, so a listener
// that reads the entity inside the callback sees the values the operation gave it - the same
// values the world reports when the call has returned (already compared with the model).
func (s *Sim) checkDeliveryValues() {
	if s.Done() || !s.Cfg.Owned[CatEventValues] {
		return
	}
	for _, b := range s.Worlds() {
		if b.Rec == nil {
			continue
		}
		for i := range b.Rec.Cur {
			g := &b.Rec.Cur[i]
			if g.Vals == nil {
				continue
			}
			ord, ok := b.Ord[g.Evt.Entity]
			if !ok || ord >= len(s.M.Ents) || !s.M.Ents[ord].Alive {
				continue
			}
			e := &s.M.Ents[ord]
			for c, got := range g.Vals {
				if !e.Has(c) {
					continue
				}
				if !bytes.Equal(got, e.Vals[c]) {
					s.Report(finding(CatEventValues, "%s: inside the listener callback (event types %06b) comp %d (%s) of #%d reads %x; the operation gave it %x (and that is what it reads after the call)", b.Name, g.Evt.EventTypes, c, b.U.Spec(c).Name, ord, got, e.Vals[c]))
					return
				}
			}
			s.Flag("events.valuesRead", 1)
		}
	}
}

// ExpectedEvent is what the documentation says the event of a change must carry.
type ExpectedEvent struct {
	Ord       int
	Bits      event.Subscription
	Added     uint32
	Removed   uint32
	OldRel    int // component index or -1
	NewRel    int
	OldTarget int
	NewTarget int
	IsRemoval bool
	After     EntState
	Before    EntState
}

// ExpectEvent derives the event of a change from the documented rules (ecs/event).
func (m *Model) ExpectEvent(ch Change) ExpectedEvent {
	ex := ExpectedEvent{Ord: ch.Ord, Before: ch.Before, After: ch.After}
	ex.Added = ch.After.Comps &^ ch.Before.Comps
	ex.Removed = ch.Before.Comps &^ ch.After.Comps
	ex.OldRel = m.RelOf(ch.Before.Comps)
	ex.NewRel = m.RelOf(ch.After.Comps)
	ex.OldTarget = ch.Before.Target
	ex.NewTarget = ch.After.Target
	relChanged := ex.OldRel != ex.NewRel
	targetChanged := relChanged || ch.Before.Target != ch.After.Target
	switch {
	case ch.Created:
		ex.Bits |= event.EntityCreated
		if ch.After.Comps != 0 {
			ex.Bits |= event.ComponentAdded
		}
	case ch.Removed:
		ex.IsRemoval = true
		ex.Bits |= event.EntityRemoved
		if ch.Before.Comps != 0 {
			ex.Bits |= event.ComponentRemoved
		}
	default:
		if len(ch.AddIDs) > 0 {
			ex.Bits |= event.ComponentAdded
		}
		if len(ch.RemIDs) > 0 {
			ex.Bits |= event.ComponentRemoved
		}
	}
	if relChanged {
		ex.Bits |= event.RelationChanged
	}
	if targetChanged {
		ex.Bits |= event.TargetChanged
	}
	return ex
}

func idsAsSet(b *WB, ids []ecs.ID) (uint32, bool) {
	var s uint32
	for _, id := range ids {
		found := false
		for c, x := range b.IDs {
			if x == id {
				s |= 1 << uint(c)
				found = true
			}
		}
		if !found {
			return 0, false
		}
	}
	return s, true
}

// checkEvents compares the events recorded during the current op with the expectation derived
// from the model's changes: exactly one truthful event per changed entity, nothing else.
func (s *Sim) checkEvents(o *Op, chs []Change) {
	if !s.Cfg.CheckEvents || s.Done() {
		return
	}
	// judged after the world has been compared with the model (flushEvents): an event that
	// truthfully reports a state the model does not expect is not the listener's fault
	s.pendingEvents = append(s.pendingEvents, pendingEvent{o, chs})
}

type pendingEvent struct {
	o   *Op
	chs []Change
}

// flushEvents compares the events of the op just executed with the model's changes.
func (s *Sim) flushEvents() {
	s.checkDeliveryLocks()
	s.checkDeliveryValues()
	s.checkCallbackQueries()
	pend := s.pendingEvents
	s.pendingEvents = nil
	if len(pend) == 0 || s.Done() {
		return
	}
	o := pend[0].o
	chs := []Change{}
	for _, p := range pend {
		chs = append(chs, p.chs...)
	}
	for _, b := range s.Worlds() {
		if b.Rec == nil {
			continue
		}
		if fd := s.compareEvents(o, b, chs); fd != nil {
			s.Report(fd)
			return
		}
	}
}

// checkDeliveryLocks judges the lock state at the time each event of the current op was delivered,
// for whatever listener the world has (C09: the world is locked while removal events are delivered,
// and only then, given that the harness has no query open while an op runs). It needs no model of
// the event stream, so it also runs for restricted listeners.
func (s *Sim) checkDeliveryLocks() {
	if !s.Cfg.Owned[CatLock] || s.Done() {
		return
	}
	for _, b := range s.Worlds() {
		if b.Rec == nil {
			continue
		}
		for i := range b.Rec.Cur {
			g := &b.Rec.Cur[i]
			removal := g.Evt.EventTypes.Contains(event.EntityRemoved)
			if removal {
				s.Flag("lock.removalEvents", 1)
			}
			if removal && !g.Locked {
				s.Report(finding(CatLock, "%s: removal event for %v (event types %06b) delivered with the world unlocked", b.Name, g.Evt.Entity, g.Evt.EventTypes))
				return
			}
			if !removal && (g.Locks > 0 || (g.Locks < 0 && g.Locked)) {
				s.Report(finding(CatLock, "%s: event for %v (event types %06b) delivered with the world locked although no query is open", b.Name, g.Evt.Entity, g.Evt.EventTypes))
				return
			}
		}
	}
}

// checkCallbackQueries reports what queries opened inside listener callbacks got wrong (C03: a query
// visits alive matching entities, each once - whenever it is opened).
func (s *Sim) checkCallbackQueries() {
	if s.Done() || !s.Cfg.Owned[CatScan] {
		return
	}
	for _, b := range s.Worlds() {
		if b.Rec == nil {
			continue
		}
		for i := range b.Rec.Cur {
			if m := b.Rec.Cur[i].QueryError; m != "" {
				s.Report(finding(CatScan, "%s: %s", b.Name, m))
				return
			}
		}
	}
}

func relName(p *ecs.ID) string {
	if p == nil {
		return "nil"
	}
	return fmt.Sprint(*p)
}

func (s *Sim) compareEvents(o *Op, b *WB, chs []Change) *Finding {
	got := b.Rec.Cur
	exp := map[int]ExpectedEvent{}
	for _, ch := range chs {
		ex := s.M.ExpectEvent(ch)
		exp[ch.Ord] = ex
		if ex.Bits&event.Relations != 0 {
			s.Flag("events.relation", 1)
			s.label("event with relation/target bits: " + o.K)
		}
	}
	s.Flag("events.expected", len(exp))
	seen := map[int]bool{}
	for i := range got {
		g := &got[i]
		ord, ok := b.Ord[g.Evt.Entity]
		if !ok {
			return finding(CatEvents, "%s: event for %v which is not an entity of this world: %s", b.Name, g.Evt.Entity, o.Describe())
		}
		ex, ok := exp[ord]
		if !ok {
			return finding(CatEvents, "%s: event (types %06b) for #%d although nothing changed for it: %s", b.Name, g.Evt.EventTypes, ord, o.Describe())
		}
		if seen[ord] {
			return finding(CatEvents, "%s: second event for #%d within one call: %s", b.Name, ord, o.Describe())
		}
		seen[ord] = true
		if g.ProbeError != "" {
			return finding(CatEvents, "%s: at delivery of the event for #%d: %s", b.Name, ord, g.ProbeError)
		}
		e := &g.Evt
		if e.EventTypes != ex.Bits {
			return finding(CatEvents, "%s: event for #%d has type bits %06b, the change is %06b (before %v/%d after %v/%d): %s",
				b.Name, ord, e.EventTypes, ex.Bits, ex.Before.List(), ex.Before.Target, ex.After.List(), ex.After.Target, o.Describe())
		}
		if e.Added != b.ExpMask(ex.Added) || e.Removed != b.ExpMask(ex.Removed) {
			return finding(CatEvents, "%s: event for #%d: Added/Removed masks are not the difference of the component sets (want +%v -%v): %s",
				b.Name, ord, EntState{Comps: ex.Added}.List(), EntState{Comps: ex.Removed}.List(), o.Describe())
		}
		// AddedIDs/RemovedIDs: as sets, they must cover exactly the changed components
		// (for creation/removal: all components)
		if as, ok := idsAsSet(b, e.AddedIDs); !ok || as != ex.Added {
			return finding(CatEvents, "%s: event for #%d: AddedIDs %v are not the added components %v: %s", b.Name, ord, e.AddedIDs, EntState{Comps: ex.Added}.List(), o.Describe())
		}
		if rs, ok := idsAsSet(b, e.RemovedIDs); !ok || rs != ex.Removed {
			return finding(CatEvents, "%s: event for #%d: RemovedIDs %v are not the removed components %v: %s", b.Name, ord, e.RemovedIDs, EntState{Comps: ex.Removed}.List(), o.Describe())
		}
		if (e.OldRelation == nil) != (ex.OldRel < 0) || (e.OldRelation != nil && *e.OldRelation != b.IDs[ex.OldRel]) {
			return finding(CatEvents, "%s: event for #%d: OldRelation=%s, before the change the relation component was %d: %s", b.Name, ord, relName(e.OldRelation), ex.OldRel, o.Describe())
		}
		if (e.NewRelation == nil) != (ex.NewRel < 0) || (e.NewRelation != nil && *e.NewRelation != b.IDs[ex.NewRel]) {
			return finding(CatEvents, "%s: event for #%d: NewRelation=%s, after the change the relation component is %d: %s", b.Name, ord, relName(e.NewRelation), ex.NewRel, o.Describe())
		}
		if e.OldTarget != b.Handle(ex.OldTarget) {
			return finding(CatEvents, "%s: event for #%d: OldTarget=%v, before the change the target was #%d %v: %s", b.Name, ord, e.OldTarget, ex.OldTarget, b.Handle(ex.OldTarget), o.Describe())
		}
		// delivery-time facts
		if ex.IsRemoval {
			if !g.Locked {
				return finding(CatEvents, "%s: removal event for #%d delivered with the world unlocked", b.Name, ord)
			}
			if !g.Alive {
				return finding(CatEvents, "%s: removal event for #%d delivered after the entity was removed", b.Name, ord)
			}
			if g.Mask != b.ExpMask(ex.Before.Comps) {
				return finding(CatEvents, "%s: removal event for #%d: components no longer inspectable at delivery", b.Name, ord)
			}
			if g.StructTry && g.StructOK {
				return finding(CatEvents, "%s: a structural call inside the removal event of #%d did not panic", b.Name, ord)
			}
		} else {
			if g.Locks > 0 || (g.Locks < 0 && g.Locked) {
				return finding(CatEvents, "%s: event for #%d delivered with the world locked", b.Name, ord)
			}
			if !g.Alive {
				return finding(CatEvents, "%s: event for #%d delivered for a dead entity", b.Name, ord)
			}
			if g.Mask != b.ExpMask(ex.After.Comps) {
				return finding(CatEvents, "%s: event for #%d delivered before the change was made (mask at delivery is not the new one)", b.Name, ord)
			}
			if ex.NewRel >= 0 {
				if !g.HasNew || g.NewTarget != b.Handle(ex.NewTarget) {
					return finding(CatEvents, "%s: event for #%d: target read at delivery is %v, new target is #%d %v", b.Name, ord, g.NewTarget, ex.NewTarget, b.Handle(ex.NewTarget))
				}
			}
		}
	}
	if len(seen) != len(exp) {
		missing := []int{}
		for ord := range exp {
			if !seen[ord] {
				missing = append(missing, ord)
			}
		}
		sort.Ints(missing)
		return finding(CatEvents, "%s: no event for changed entities %v (%d events for %d changes): %s", b.Name, missing, len(got), len(exp), o.Describe())
	}
	return nil
}
