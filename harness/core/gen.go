package core

import (
	"github.com/mlange-42/arche/ecs"
	"pgregory.net/rapid"
)

// Generators. Every choice is drawn through rapid, from the model state only (DESIGN 4.19).

// GenUniverse draws the component setup of a case.
func GenUniverse(t *rapid.T, maxPlain, minRel, maxRel int) *Universe {
	u := &Universe{}
	np := rapid.IntRange(1, maxPlain).Draw(t, "nplain")
	nr := rapid.IntRange(minRel, maxRel).Draw(t, "nrel")
	if rapid.IntRange(0, 3).Draw(t, "relbias") != 0 && nr == 0 && maxRel > 0 {
		nr = 1
	}
	u.Plain = drawDistinct(t, HugePlain, np, "plain")
	u.Rel = drawDistinct(t, len(RelPool), nr, "rel")
	n := np + nr
	limit := ecs.MaskTotalBits
	switch rapid.IntRange(0, 3).Draw(t, "idmode") {
	case 0: // compact: IDs 0..n-1 in a drawn order
		u.IDs = rapid.Permutation(seq(n)).Draw(t, "ids")
	case 1: // compact, shifted to an edge
		base := rapid.SampledFrom([]int{0, 10, 14, 30, 60, 62, 120, 126, 190, 236, 246}).Draw(t, "base")
		if base+n > limit {
			base = limit - n
		}
		perm := rapid.Permutation(seq(n)).Draw(t, "ids")
		for _, p := range perm {
			u.IDs = append(u.IDs, base+p)
		}
	default: // spread over the whole range, edge-biased
		seen := map[int]bool{}
		for len(u.IDs) < n {
			var id int
			if rapid.Bool().Draw(t, "edge") {
				id = rapid.SampledFrom([]int{0, 1, 15, 16, 31, 32, 63, 64, 65, 127, 128, 191, 192, 239, 240, 241, 254, 255}).Draw(t, "id")
			} else {
				id = rapid.IntRange(0, limit-1).Draw(t, "id")
			}
			id %= limit
			if !seen[id] {
				seen[id] = true
				u.IDs = append(u.IDs, id)
			}
		}
	}
	u.Cap = rapid.SampledFrom([]int{1, 1, 2, 2, 3, 4, 8, 128}).Draw(t, "cap")
	u.RCap = rapid.SampledFrom([]int{0, 0, 1, 2, 5}).Draw(t, "rcap")
	u.FullRes = rapid.IntRange(0, 999).Draw(t, "fullres")%12 == 5
	if rapid.IntRange(0, 999).Draw(t, "huge")%20 == 9 {
		// one component type larger than 64 KiB (tables stay small: capacity increment <= 8)
		u.Plain[rapid.IntRange(0, np-1).Draw(t, "hugeat")] = HugePlain
		if u.Cap > 8 {
			u.Cap = 8
		}
	}
	return u
}

func seq(n int) []int {
	s := make([]int, n)
	for i := range s {
		s[i] = i
	}
	return s
}

func drawDistinct(t *rapid.T, pool, n int, label string) []int {
	if n > pool {
		n = pool
	}
	perm := rapid.Permutation(seq(pool)).Draw(t, label)
	return append([]int{}, perm[:n]...)
}

// Mix is a weighted choice of op kinds.
type Mix map[string]int

// Limits bound the size of generated worlds.
type Limits struct {
	MaxAlive int
	MaxTotal int
	MaxBatch int
	MaxSlots int
}

// DefaultLimits are used by most checks.
var DefaultLimits = Limits{MaxAlive: 40, MaxTotal: 160, MaxBatch: 7, MaxSlots: 5}

// Gen draws ops for one model.
type Gen struct {
	M   *Model
	Mix Mix
	Lim Limits
	// BigBatch allows occasional large batch creations (crossing capacity 128).
	BigBatch bool
	// DeadFilterTargets allows relation filters whose target is a dead entity.
	DeadFilterTargets bool
	// TargetRemovalPct: how often (percent) a single removal picks an entity that currently
	// is a relation target.
	TargetRemovalPct int
	serial           int
	fanned           bool
	// Wide allows one "fanout" per case: 33-40 parents with one child each (needs Lim.MaxAlive >= 130).
	Wide bool
	// IllegalQuerySteps adds out-of-range EntityAt/Step calls to query scripts.
	IllegalQuerySteps bool
	// Illegal lists the illegal-argument classes to inject, IllegalPct how often (percent of ops).
	Illegal    []string
	IllegalPct int
}

func (g *Gen) tok(t *rapid.T) uint32 {
	return rapid.Uint32Range(1, 1<<30).Draw(t, "tok")
}

func (g *Gen) toks(t *rapid.T, n int) []uint32 {
	out := make([]uint32, n)
	for i := range out {
		if rapid.IntRange(0, 7).Draw(t, "zerotok") == 0 {
			out[i] = 0
		} else {
			out[i] = g.tok(t)
		}
	}
	return out
}

// subset draws a subset of cands with at least min members (cands must have >= min).
func subset(t *rapid.T, cands []int, min int, label string) []int {
	if len(cands) == 0 {
		return nil
	}
	perm := rapid.Permutation(cands).Draw(t, label)
	// small sets are the common case
	maxN := len(cands)
	n := min
	if maxN > min {
		n = min + rapid.SampledFrom([]int{0, 0, 0, 1, 1, 2, 3}).Draw(t, label+"n")
		if n > maxN {
			n = maxN
		}
	}
	return append([]int{}, perm[:n]...)
}

// compsOK filters a component list so that it contains at most one relation component.
func (g *Gen) oneRel(cs []int, haveRel bool) []int {
	out := []int{}
	for _, c := range cs {
		if g.M.U.IsRel(c) {
			if haveRel {
				continue
			}
			haveRel = true
		}
		out = append(out, c)
	}
	return out
}

func (g *Gen) allComps() []int { return seq(g.M.U.N()) }

func (g *Gen) relComps() []int {
	out := []int{}
	for c := len(g.M.U.Plain); c < g.M.U.N(); c++ {
		out = append(out, c)
	}
	return out
}

func (g *Gen) absent(s EntState) []int {
	out := []int{}
	for c := 0; c < g.M.U.N(); c++ {
		if !s.Has(c) {
			out = append(out, c)
		}
	}
	return out
}

// pickAlive draws an alive ordinal.
func (g *Gen) pickAlive(t *rapid.T, label string) int {
	al := g.M.AliveOrds()
	// bias to low ordinals ("parents") and recent ones
	switch rapid.IntRange(0, 3).Draw(t, label+"bias") {
	case 0:
		return al[rapid.IntRange(0, min(2, len(al)-1)).Draw(t, label)]
	case 1:
		return al[len(al)-1-rapid.IntRange(0, min(2, len(al)-1)).Draw(t, label)]
	}
	return al[rapid.IntRange(0, len(al)-1).Draw(t, label)]
}

func min(a, b int) int {
	if a < b {
		return a
	}
	return b
}

// pickTarget draws a legal target: zero, an alive entity (biased to existing targets and low
// ordinals), possibly the entity itself.
func (g *Gen) pickTarget(t *rapid.T, self int) int {
	if g.M.NAlive == 0 {
		return TZero
	}
	switch rapid.IntRange(0, 9).Draw(t, "tkind") {
	case 0, 1:
		return TZero
	case 2:
		if self >= 0 {
			return self
		}
	case 3, 4, 5:
		// an entity that already is somebody's target
		cands := []int{}
		seen := map[int]bool{}
		for i := range g.M.Ents {
			e := &g.M.Ents[i]
			if e.Alive && e.Target >= 0 && g.M.Ents[e.Target].Alive && !seen[e.Target] {
				seen[e.Target] = true
				cands = append(cands, e.Target)
			}
		}
		if len(cands) > 0 {
			return cands[rapid.IntRange(0, len(cands)-1).Draw(t, "texisting")]
		}
	}
	return g.pickAlive(t, "target")
}

// GenFilter draws a filter expression over the active components. If around >= 0 the filter
// is (mostly) built so that it matches that entity.
func (g *Gen) GenFilter(t *rapid.T, depth int, allowRel bool) *F {
	if allowRel && len(g.M.U.Rel) > 0 && rapid.IntRange(0, 3).Draw(t, "relwrap") == 0 {
		return &F{T: "rel", L: g.GenFilter(t, depth, false), Target: g.filterTarget(t)}
	}
	var hint EntState
	haveHint := false
	if g.M.NAlive > 0 && rapid.IntRange(0, 2).Draw(t, "hint") != 0 {
		hint = g.M.Ents[g.pickAlive(t, "hintent")].EntState
		haveHint = true
	}
	return g.genFilterExpr(t, depth, hint, haveHint)
}

func (g *Gen) filterTarget(t *rapid.T) int {
	// targets that entities actually have (alive or dead), else any entity, else zero
	cands := []int{TZero}
	seen := map[int]bool{}
	for i := range g.M.Ents {
		e := &g.M.Ents[i]
		if e.Alive && e.Target >= 0 && !seen[e.Target] {
			if g.M.Ents[e.Target].Alive || g.DeadFilterTargets {
				seen[e.Target] = true
				cands = append(cands, e.Target)
			}
		}
	}
	if rapid.IntRange(0, 4).Draw(t, "anytarget") == 0 && len(g.M.Ents) > 0 {
		o := rapid.IntRange(0, len(g.M.Ents)-1).Draw(t, "ftarget")
		if g.M.Ents[o].Alive || g.DeadFilterTargets {
			return o
		}
	}
	return cands[rapid.IntRange(0, len(cands)-1).Draw(t, "ftargetc")]
}

func (g *Gen) genFilterExpr(t *rapid.T, depth int, hint EntState, haveHint bool) *F {
	n := g.M.U.N()
	leaf := depth <= 1 || rapid.IntRange(0, 2).Draw(t, "leaf") != 0
	if leaf {
		k := rapid.SampledFrom([]string{"mask", "mask", "mask", "without", "without", "excl", "any", "noneof", "anynot"}).Draw(t, "leafkind")
		f := &F{T: k}
		pool := seq(n)
		if haveHint && (k == "mask" || k == "without" || k == "excl" || k == "any") {
			if k == "excl" {
				f.Ids = hint.List()
				return f
			}
			if l := hint.List(); len(l) > 0 {
				pool = l
			} else if k != "any" {
				// entity without components: only the empty mask matches it
				if k == "without" {
					f.Ex = subset(t, seq(n), 1, "ex")
				}
				return f
			}
		}
		f.Ids = subset(t, pool, rapid.IntRange(0, 1).Draw(t, "minids"), "ids")
		if k == "without" {
			exPool := seq(n)
			if haveHint {
				exPool = g.absent(hint)
			}
			f.Ex = subset(t, exPool, min(1, len(exPool)), "ex")
		}
		if k == "mask" {
			f.ByVal = rapid.Bool().Draw(t, "byval")
		}
		return f
	}
	k := rapid.SampledFrom([]string{"and", "or", "xor", "not", "rel"}).Draw(t, "node")
	f := &F{T: k, Target: TZero}
	f.L = g.genFilterExpr(t, depth-1, hint, haveHint)
	if k == "and" || k == "or" || k == "xor" {
		f.R = g.genFilterExpr(t, depth-1, hint, false)
	}
	if k == "rel" { // nested relation filter: its target is ignored by the logic filters
		f.Target = g.filterTarget(t)
	}
	return f
}

// matching returns the ordinals a filter may select (Yes or DontCare) by the model.
func (g *Gen) matching(f *F) []int {
	out := []int{}
	for i := range g.M.Ents {
		e := &g.M.Ents[i]
		if e.Alive && g.M.MatchOrd(f, e.EntState) != No {
			out = append(out, i)
		}
	}
	return out
}

// baseFilter builds without(inc, ex), optionally narrowed by a conjunct and/or wrapped in a
// relation filter. Everything it selects has all of inc and none of ex.
func (g *Gen) baseFilter(t *rapid.T, inc, ex []int) *F {
	var f *F
	if len(ex) == 0 && rapid.Bool().Draw(t, "plainmask") {
		f = &F{T: "mask", Ids: inc, ByVal: rapid.Bool().Draw(t, "byval")}
	} else {
		f = &F{T: "without", Ids: inc, Ex: ex}
	}
	if rapid.IntRange(0, 3).Draw(t, "narrow") == 0 {
		f = &F{T: "and", L: f, R: g.genFilterExpr(t, 2, EntState{}, false)}
	}
	if len(g.M.U.Rel) > 0 && rapid.IntRange(0, 2).Draw(t, "relwrap") == 0 {
		f = &F{T: "rel", L: f, Target: g.filterTarget(t)}
	}
	return f
}

// regSlots returns used and free slots.
func (g *Gen) regSlots() (used, free []int) {
	for i := 0; i < g.Lim.MaxSlots; i++ {
		if i < len(g.M.Regs) && g.M.Regs[i] != nil {
			used = append(used, i)
		} else {
			free = append(free, i)
		}
	}
	return
}

// Enabled lists the op kinds of the mix that have at least one legal instance now.
func (g *Gen) Enabled() []string {
	m := g.M
	out := []string{}
	canCreate := m.NAlive < g.Lim.MaxAlive && len(m.Ents) < g.Lim.MaxTotal
	hasComp, hasAbsent, hasRelEnt := false, false, false
	for i := range m.Ents {
		e := &m.Ents[i]
		if !e.Alive {
			continue
		}
		if e.Comps != 0 {
			hasComp = true
		}
		if e.Count() < m.U.N() {
			hasAbsent = true
		}
		if m.RelOf(e.Comps) >= 0 {
			hasRelEnt = true
		}
	}
	used, free := g.regSlots()
	for _, k := range sortedKeys(g.Mix) {
		w := g.Mix[k]
		if w <= 0 {
			continue
		}
		ok := false
		switch k {
		case OpNew, OpNewWith, OpBuildNew, OpBuildBatch:
			ok = canCreate
		case OpRemoveEnt:
			ok = m.NAlive > 0
		case OpAdd, OpAssign, OpBuildAdd:
			ok = hasAbsent
		case OpRemove:
			ok = hasComp
		case OpExchange, OpRelExchange:
			ok = m.NAlive > 0 && (hasComp || hasAbsent)
			if k == OpRelExchange {
				ok = ok && len(m.U.Rel) > 0
			}
		case OpSet, OpWriteGet, OpWriteQuery:
			ok = hasComp
		case OpRelSet:
			ok = hasRelEnt
		case OpBatchAdd, OpBatchRemove, OpBatchExch, OpRemoveEnts, OpQuery:
			ok = true
		case OpBatchSetRel, OpRelExchB:
			ok = len(m.U.Rel) > 0
		case OpRegister:
			ok = len(free) > 0
		case OpUnregister:
			ok = len(used) > 0
		case OpReset, OpGC, OpDumpLoad, OpResAdd, OpResRemove, OpTypeLimit, OpDumpSave, OpDumpRestore, OpLockedRegistration:
			ok = true
		case OpDeadRead:
			ok = len(m.Ents) > m.NAlive
		case OpCacheIll:
			ok = len(used) > 0 || m.NStale > 0
		}
		if ok {
			for i := 0; i < w; i++ {
				out = append(out, k)
			}
		}
	}
	return out
}

func sortedKeys(m Mix) []string {
	ks := make([]string, 0, len(m))
	for k := range m {
		ks = append(ks, k)
	}
	// insertion sort, tiny
	for i := 1; i < len(ks); i++ {
		for j := i; j > 0 && ks[j] < ks[j-1]; j-- {
			ks[j], ks[j-1] = ks[j-1], ks[j]
		}
	}
	return ks
}

// Draw draws the next legal op. ok=false means nothing is enabled.
func (g *Gen) Draw(t *rapid.T) (Op, bool) {
	if g.IllegalPct > 0 && len(g.Illegal) > 0 && rapid.IntRange(0, 99).Draw(t, "illegal?") < g.IllegalPct {
		if op, ok := g.DrawIllegal(t, g.Illegal); ok {
			return op, true
		}
	}
	if g.Wide && !g.fanned && len(g.M.U.Rel) > 0 && g.M.NAlive+90 <= g.Lim.MaxAlive && len(g.M.Ents)+90 <= g.Lim.MaxTotal && rapid.IntRange(0, 5).Draw(t, "fanout?") == 0 {
		g.fanned = true
		rel := pick(t, g.relComps(), "fanrel")
		child := append(subset(t, g.plainComps(), 0, "fanchild"), rel)
		return Op{K: OpFanout, N: rapid.IntRange(33, 40).Draw(t, "fann"), Add: subset(t, g.plainComps(), 0, "fanparent"), Rem: child, C: rel}, true
	}
	en := g.Enabled()
	if len(en) == 0 {
		return Op{}, false
	}
	for try := 0; try < 4; try++ {
		k := rapid.SampledFrom(en).Draw(t, "kind")
		if op, ok := g.drawKind(t, k); ok {
			return op, true
		}
	}
	// always possible
	return Op{K: OpQuery, F: &F{T: "mask"}}, true
}

// createComps draws the component list of a creation.
func (g *Gen) createComps(t *rapid.T) []int {
	cs := subset(t, g.allComps(), 0, "comps")
	if len(cs) == 0 && rapid.IntRange(0, 2).Draw(t, "nonempty") != 0 {
		cs = subset(t, g.allComps(), 1, "comps1")
	}
	return g.oneRel(cs, false)
}

// DrawKind draws a legal instance of one op kind (false if the state offers none).
func (g *Gen) DrawKind(t *rapid.T, k string) (Op, bool) { return g.drawKind(t, k) }

func (g *Gen) drawKind(t *rapid.T, k string) (Op, bool) {
	m := g.M
	switch k {
	case OpNew:
		return Op{K: k, Add: g.createComps(t), T: TNone}, true
	case OpNewWith:
		cs := g.createComps(t)
		return Op{K: k, Add: cs, Tok: g.toks(t, len(cs)), T: TNone}, true
	case OpBuildNew, OpBuildBatch:
		cs := g.createComps(t)
		op := Op{K: k, Add: cs, T: TNone, N: 1}
		if rapid.Bool().Draw(t, "vals") && len(cs) > 0 {
			op.Vals = true
			op.Tok = g.toks(t, len(cs))
		}
		rel := m.RelOf(EntState{Comps: setOf(cs)}.Comps)
		if rel >= 0 && rapid.IntRange(0, 3).Draw(t, "withrel") != 0 {
			op.Rel, op.C = true, rel
			if rapid.IntRange(0, 4).Draw(t, "givetarget") != 0 {
				op.T = g.pickTarget(t, -1)
			}
		}
		if k == OpBuildBatch {
			room := min(g.Lim.MaxAlive-m.NAlive, g.Lim.MaxTotal-len(m.Ents))
			maxN := min(g.Lim.MaxBatch, room)
			if maxN < 1 {
				return Op{}, false
			}
			op.N = rapid.IntRange(1, maxN).Draw(t, "count")
			if g.BigBatch && rapid.IntRange(0, 9).Draw(t, "big") == 0 {
				if big := min(300, room); big > maxN {
					op.N = rapid.IntRange(maxN, big).Draw(t, "bigcount")
				}
			}
			op.Q = rapid.Bool().Draw(t, "q")
		}
		return op, true
	case OpRemoveEnt:
		if g.TargetRemovalPct > 0 && rapid.IntRange(0, 99).Draw(t, "rmtarget?") < g.TargetRemovalPct {
			cands := []int{}
			seen := map[int]bool{}
			for i := range m.Ents {
				e := &m.Ents[i]
				if e.Alive && e.Target >= 0 && m.Ents[e.Target].Alive && !seen[e.Target] {
					seen[e.Target] = true
					cands = append(cands, e.Target)
				}
			}
			if len(cands) > 0 {
				return Op{K: k, E: pick(t, cands, "rmtarget")}, true
			}
		}
		return Op{K: k, E: g.pickAlive(t, "e")}, true
	case OpAdd, OpAssign, OpBuildAdd:
		e := g.pickAlive(t, "e")
		st := m.Ents[e].EntState
		cands := g.oneRel(g.absent(st), m.RelOf(st.Comps) >= 0)
		if len(cands) == 0 {
			return Op{}, false
		}
		add := g.oneRel(subset(t, cands, 1, "add"), m.RelOf(st.Comps) >= 0)
		op := Op{K: k, E: e, Add: add, T: TNone}
		if k == OpAssign {
			op.Tok = g.toks(t, len(add))
		}
		if k == OpBuildAdd {
			if rapid.Bool().Draw(t, "vals") {
				op.Vals = true
				op.Tok = g.toks(t, len(add))
			}
			after := st.Comps | setOf(add)
			if rel := m.RelOf(after); rel >= 0 && rapid.IntRange(0, 2).Draw(t, "withrel") != 0 {
				op.Rel, op.C = true, rel
				if rapid.IntRange(0, 3).Draw(t, "givetarget") != 0 {
					op.T = g.pickTarget(t, e)
				}
			}
		}
		return op, true
	case OpRemove:
		e := g.pickAlive(t, "e")
		l := m.Ents[e].List()
		if len(l) == 0 {
			return Op{}, false
		}
		return Op{K: k, E: e, Rem: subset(t, l, 1, "rem")}, true
	case OpExchange:
		e := g.pickAlive(t, "e")
		st := m.Ents[e].EntState
		rem := subset(t, st.List(), 0, "rem")
		afterRem := st.Comps &^ setOf(rem)
		add := g.oneRel(subset(t, g.absent(st), 0, "add"), m.RelOf(afterRem) >= 0)
		if len(add) == 0 && len(rem) == 0 && rapid.IntRange(0, 9).Draw(t, "allowempty") != 0 {
			return Op{}, false
		}
		return Op{K: k, E: e, Add: add, Rem: rem}, true
	case OpRelExchange:
		e := g.pickAlive(t, "e")
		st := m.Ents[e].EntState
		rem := subset(t, st.List(), 0, "rem")
		afterRem := st.Comps &^ setOf(rem)
		add := g.oneRel(subset(t, g.absent(st), 0, "add"), m.RelOf(afterRem) >= 0)
		after := afterRem | setOf(add)
		rel := m.RelOf(after)
		if rel < 0 {
			// force a relation into the result
			for _, c := range g.relComps() {
				if !st.Has(c) {
					add = append(add, c)
					rel = c
					break
				}
			}
			if rel < 0 {
				return Op{}, false
			}
		}
		if len(add) == 0 && len(rem) == 0 {
			return Op{}, false
		}
		return Op{K: k, E: e, Add: add, Rem: rem, C: rel, T: g.pickTarget(t, e)}, true
	case OpSet, OpWriteGet, OpWriteQuery:
		e := g.pickAlive(t, "e")
		l := m.Ents[e].List()
		if len(l) == 0 {
			return Op{}, false
		}
		c := l[rapid.IntRange(0, len(l)-1).Draw(t, "c")]
		op := Op{K: k, E: e, C: c, Tok: g.toks(t, 1)}
		if k == OpWriteGet {
			op.V = rapid.IntRange(0, 1).Draw(t, "unchecked")
		}
		return op, true
	case OpRelSet:
		cands := []int{}
		for i := range m.Ents {
			if m.Ents[i].Alive && m.RelOf(m.Ents[i].Comps) >= 0 {
				cands = append(cands, i)
			}
		}
		if len(cands) == 0 {
			return Op{}, false
		}
		e := cands[rapid.IntRange(0, len(cands)-1).Draw(t, "e")]
		return Op{K: k, E: e, C: m.RelOf(m.Ents[e].Comps), T: g.pickTarget(t, e)}, true
	case OpRemoveEnts:
		return g.withFilterChoice(t, Op{K: k}, g.GenFilter(t, 2, true)), true
	case OpQuery:
		op := g.withFilterChoice(t, Op{K: k}, g.GenFilter(t, 3, true))
		op.Script = g.GenScript(t)
		return op, true
	case OpBatchAdd, OpBatchRemove, OpBatchExch, OpRelExchB, OpBatchSetRel:
		return g.drawBatch(t, k)
	case OpRegister:
		_, free := g.regSlots()
		if len(free) == 0 {
			return Op{}, false
		}
		return Op{K: k, Slot: free[rapid.IntRange(0, len(free)-1).Draw(t, "slot")], F: g.GenFilter(t, 3, true)}, true
	case OpUnregister:
		used, _ := g.regSlots()
		if len(used) == 0 {
			return Op{}, false
		}
		return Op{K: k, Slot: used[rapid.IntRange(0, len(used)-1).Draw(t, "slot")]}, true
	case OpDumpLoad, OpDumpRestore:
		// how the dump travels: as a value, through encoding/json, through indented JSON
		return Op{K: k, V: rapid.SampledFrom([]int{0, 0, 1, 2}).Draw(t, "transport")}, true
	case OpReset, OpGC, OpTypeLimit, OpDumpSave:
		return Op{K: k}, true
	case OpLockedRegistration:
		g.serial++
		return Op{K: k, Ill: "locked-registration", N: g.serial}, true
	case OpResAdd, OpResRemove:
		// legal instances only; the illegal ones are drawn by DrawIllegal
		cands := []int{}
		for r := 0; r < NumRes; r++ {
			if m.Res[r] == (k == OpResRemove) {
				cands = append(cands, r)
			}
		}
		if len(cands) == 0 {
			return Op{}, false
		}
		return Op{K: k, C: pick(t, cands, "res")}, true
	case OpDeadRead:
		dead := m.DeadOrds()
		if len(dead) == 0 {
			return Op{}, false
		}
		return Op{K: k, Ill: IllDeadEntity, E: dead[len(dead)-1-rapid.IntRange(0, min(3, len(dead)-1)).Draw(t, "dead")],
			C: rapid.IntRange(0, m.U.N()-1).Draw(t, "c"), V: rapid.IntRange(0, 4).Draw(t, "accessor")}, true
	case OpCacheIll:
		used, _ := g.regSlots()
		if m.NStale > 0 && (len(used) == 0 || rapid.Bool().Draw(t, "stale")) {
			return Op{K: k, Ill: "cache", Slot: rapid.IntRange(0, m.NStale-1).Draw(t, "staleidx"), V: rapid.IntRange(2, 4).Draw(t, "stalehow")}, true
		}
		if len(used) == 0 {
			return Op{}, false
		}
		return Op{K: k, Ill: "cache", Slot: pick(t, used, "slot"), V: rapid.IntRange(0, 1).Draw(t, "how")}, true
	}
	return Op{}, false
}

// withFilterChoice uses a registered filter instead of f with some probability, if the mix
// allows it (weight of "useRegistered" > 0) and one is registered.
func (g *Gen) withFilterChoice(t *rapid.T, op Op, f *F) Op {
	used, _ := g.regSlots()
	if g.Mix["useRegistered"] > 0 && len(used) > 0 && rapid.IntRange(0, 99).Draw(t, "usereg") < g.Mix["useRegistered"] {
		op.Reg = true
		op.Slot = used[rapid.IntRange(0, len(used)-1).Draw(t, "slot")]
		op.F = nil
		return op
	}
	op.F = f
	return op
}

func setOf(cs []int) uint32 {
	var s uint32
	for _, c := range cs {
		s |= 1 << uint(c)
	}
	return s
}

// GenScript draws a query script.
func (g *Gen) GenScript(t *rapid.T) []QStep {
	n := rapid.IntRange(0, 6).Draw(t, "nscript")
	out := []QStep{}
	kinds := []string{"next", "next", "step", "step", "count", "at", "atall", "all", "close"}
	if g.IllegalQuerySteps {
		kinds = append(kinds, "at!neg", "at!count", "step!0", "step!neg", "rel!bad", "rel!bad")
	}
	for i := 0; i < n; i++ {
		k := rapid.SampledFrom(kinds).Draw(t, "qk")
		st := QStep{K: k}
		switch k {
		case "step":
			st.N = rapid.SampledFrom([]int{1, 1, 2, 2, 3, 5, 8, 13, 50}).Draw(t, "stepn")
		case "at":
			st.N = rapid.IntRange(0, 60).Draw(t, "atn")
		case "at!neg", "at!count", "step!neg":
			st.N = rapid.IntRange(0, 2).Draw(t, "illn")
		case "rel!bad":
			st.N = rapid.IntRange(0, 12).Draw(t, "relc")
		}
		out = append(out, st)
	}
	return out
}

// drawBatch draws a batch structural op whose arguments are legal for everything the filter
// may select.
func (g *Gen) drawBatch(t *rapid.T, k string) (Op, bool) {
	m := g.M
	n := m.U.N()
	op := Op{K: k, T: TNone, Q: rapid.Bool().Draw(t, "q")}
	var inc, ex, add, rem []int
	rels := g.relComps()
	// choose the structural arguments first, then a filter that makes them legal
	switch k {
	case OpBatchAdd:
		add = g.oneRel(subset(t, seq(n), 1, "add"), false)
		ex = append(ex, add...)
		if m.RelOf(setOf(add)) >= 0 {
			ex = union(ex, rels)
		}
		inc = subset(t, minus(seq(n), ex), 0, "inc")
	case OpBatchRemove:
		rem = subset(t, seq(n), 1, "rem")
		rem = g.oneRel(rem, false)
		inc = append(inc, rem...)
		ex = subset(t, minus(seq(n), inc), 0, "ex")
	case OpBatchExch:
		rem = g.oneRel(subset(t, seq(n), 0, "rem"), false)
		add = subset(t, minus(seq(n), rem), 0, "add")
		add = g.oneRel(add, false)
		if len(add) == 0 && len(rem) == 0 {
			if rapid.IntRange(0, 9).Draw(t, "allowempty") != 0 {
				return Op{}, false
			}
		}
		inc = append(inc, rem...)
		ex = append(ex, add...)
		if m.RelOf(setOf(add)) >= 0 {
			// no relation may remain after the removals
			ex = union(ex, minus(rels, rem))
		}
	case OpBatchSetRel:
		if len(rels) == 0 {
			return Op{}, false
		}
		r := rels[rapid.IntRange(0, len(rels)-1).Draw(t, "rel")]
		op.C = r
		inc = append(subset(t, minus(seq(n), rels), 0, "inc"), r)
		ex = subset(t, minus(seq(n), union(inc, rels)), 0, "ex")
		op.T = g.pickTarget(t, -1)
		op.V = rapid.IntRange(0, 1).Draw(t, "api")
	case OpRelExchB:
		if len(rels) == 0 {
			return Op{}, false
		}
		r := rels[rapid.IntRange(0, len(rels)-1).Draw(t, "rel")]
		op.C = r
		op.T = g.pickTarget(t, -1)
		switch rapid.IntRange(0, 2).Draw(t, "mode") {
		case 0: // entities keep relation r; other components move
			inc = []int{r}
			rem = subset(t, minus(seq(n), rels), 0, "rem")
			add = subset(t, minus(seq(n), union(rem, rels)), 0, "add")
			inc = union(inc, rem)
			ex = append(ex, add...)
		case 1: // relation r is added
			add = append(subset(t, minus(seq(n), rels), 0, "add"), r)
			ex = union(add, rels)
		default: // another relation is swapped for r
			others := minus(rels, []int{r})
			if len(others) == 0 {
				return Op{}, false
			}
			o := others[rapid.IntRange(0, len(others)-1).Draw(t, "other")]
			rem = []int{o}
			add = []int{r}
			inc = []int{o}
			ex = []int{r}
		}
		if len(add) == 0 && len(rem) == 0 {
			return Op{}, false
		}
	}
	op.Add, op.Rem = add, rem
	if op.Q && g.IllegalQuerySteps && rapid.IntRange(0, 2).Draw(t, "illq") == 0 {
		op.Script = []QStep{{K: rapid.SampledFrom([]string{"at!neg", "at!count", "step!0", "step!neg"}).Draw(t, "illqk")}}
	}
	if op.Q {
		// how the returned query is advanced: scripted Step(n) calls, an early Close
		switch rapid.IntRange(0, 5).Draw(t, "qadvance") {
		case 0, 1:
			ns := rapid.IntRange(1, 4).Draw(t, "nsteps")
			for i := 0; i < ns; i++ {
				op.Script = append(op.Script, QStep{K: "step", N: rapid.SampledFrom([]int{1, 1, 2, 3, 5, 9}).Draw(t, "stepn")})
			}
		case 2:
			op.Script = append(op.Script, QStep{K: "closeafter", N: rapid.IntRange(0, 3).Draw(t, "closeafter")})
		}
	}
	f := g.baseFilter(t, inc, ex)
	op = g.withFilterChoice(t, op, f)
	if op.Reg {
		// a registered filter was chosen: the arguments must be legal for what *it* selects
		f = m.Regs[op.Slot].F
		if m.Regs[op.Slot].Epoch != m.Epoch && f.T == "rel" && f.Target >= 0 {
			return Op{}, false // stale target ordinal: cannot be judged on ordinals
		}
	}
	// final legality check on the model (conservative: Yes and DontCare)
	sim := &Sim{M: m}
	if _, ill := sim.batchNext(&op, g.matching(f)); ill != nil {
		return Op{}, false
	}
	return op, true
}

func minus(a, b []int) []int {
	bs := asSet(b)
	out := []int{}
	for _, x := range a {
		if !bs[x] {
			out = append(out, x)
		}
	}
	return out
}

func union(a, b []int) []int {
	out := append([]int{}, a...)
	as := asSet(a)
	for _, x := range b {
		if !as[x] {
			out = append(out, x)
			as[x] = true
		}
	}
	return out
}
