package core

import (
	"fmt"
	"strings"

	"github.com/mlange-42/arche/ecs"
	"github.com/mlange-42/arche/ecs/event"
	"github.com/mlange-42/arche/listener"
)

// SubSpec describes a listener with restricted subscriptions (C12).
type SubSpec struct {
	Kind string    `json:"kind"`           // rec: harness recorder | callback: listener.Callback | dispatch: listener.Dispatch
	S    int       `json:"s"`              // subscribed event types (0..63)
	HasC bool      `json:"hasc"`           // component restriction given
	C    []int     `json:"c,omitempty"`    // component indices of the restriction
	Subs []SubSpec `json:"subs,omitempty"` // dispatch: initial sub-listeners
}

// subListener is one listener whose received stream is compared.
type subListener struct {
	spec        SubSpec
	rec         *Recorder
	cb          *listener.Callback
	name        string
	seen, taken int // events of the full stream since the listener was added / selected of those
}

func (l *subListener) listener() ecs.Listener {
	if l.cb != nil {
		return l.cb
	}
	return l.rec
}

// subWorld is a lock-step world with restricted listeners.
type subWorld struct {
	b        *WB
	subs     []*subListener
	dispatch *listener.Dispatch
}

func (b *WB) newSubListener(spec SubSpec, name string) *subListener {
	l := &subListener{spec: spec, name: name}
	l.rec = &Recorder{Subs: event.Subscription(spec.S)}
	if spec.HasC {
		m := ecs.All(b.MapIDs(spec.C)...)
		l.rec.Comps = &m
	}
	if spec.Kind == "callback" {
		cb := listener.NewCallback(func(w *ecs.World, e ecs.EntityEvent) { l.rec.Notify(w, e) }, event.Subscription(spec.S), b.MapIDs(spec.C)...)
		l.cb = &cb
		if len(spec.C) == 0 {
			l.spec.HasC = false // NewCallback without components subscribes to all components
		} else {
			l.spec.HasC = true
		}
	}
	return l
}

// AddSubscriberWorld adds a lock-step world whose listener is described by spec. Must be called
// before the first op.
func (s *Sim) AddSubscriberWorld(spec SubSpec) {
	b := NewWB(fmt.Sprintf("sub-world-%d", len(s.X)), s.M.U)
	sw := &subWorld{b: b}
	if spec.Kind == "dispatch" {
		ls := []ecs.Listener{}
		for i, ss := range spec.Subs {
			l := b.newSubListener(ss, fmt.Sprintf("%s dispatch sub-listener %d", b.Name, i))
			sw.subs = append(sw.subs, l)
			ls = append(ls, l.listener())
		}
		d := listener.NewDispatch(ls...)
		sw.dispatch = &d
		b.W.SetListener(sw.dispatch)
	} else {
		l := b.newSubListener(spec, b.Name+" listener")
		sw.subs = append(sw.subs, l)
		b.W.SetListener(l.listener())
	}
	s.X = append(s.X, sw)
	s.SubSpecs = append(s.SubSpecs, spec)
}

// OpAddListener adds a sub-listener to the Dispatch of a subscriber world mid-history.
const OpAddListener = "addListener"

func (s *Sim) doAddListener(o *Op) {
	if len(s.X) == 0 {
		return
	}
	sw := s.X[o.Slot%len(s.X)]
	if sw.dispatch == nil {
		return
	}
	spec := SubSpec{Kind: "rec", S: o.V, HasC: o.Vals, C: o.Add}
	if o.N == 1 {
		spec.Kind = "callback"
	}
	l := sw.b.newSubListener(spec, fmt.Sprintf("%s dispatch sub-listener %d (added later)", sw.b.Name, len(sw.subs)))
	sw.subs = append(sw.subs, l)
	sw.dispatch.AddListener(l.listener())
	s.label("Dispatch.AddListener mid-history")
}

// canon renders an event independent of the world it came from.
func (b *WB) canon(e *ecs.EntityEvent) string {
	set := func(m *ecs.Mask) string {
		out := []string{}
		for c := 0; c < b.U.N(); c++ {
			if m.Get(b.IDs[c]) {
				out = append(out, fmt.Sprint(c))
			}
		}
		return strings.Join(out, ",")
	}
	rel := func(p *ecs.ID) int {
		if p == nil {
			return -1
		}
		for c, id := range b.IDs {
			if id == *p {
				return c
			}
		}
		return -2
	}
	ids := func(v []ecs.ID) string {
		s, _ := idsAsSet(b, v)
		return fmt.Sprint(EntState{Comps: s}.List())
	}
	ord, ok := b.Ord[e.Entity]
	if !ok {
		ord = -9
	}
	tgt := -1
	if !e.OldTarget.IsZero() {
		t, ok := b.Ord[e.OldTarget]
		if !ok {
			t = -9
		}
		tgt = t
	}
	return fmt.Sprintf("#%d types=%06b +{%s} -{%s} +ids%s -ids%s oldrel=%d newrel=%d oldtarget=#%d", ord, e.EventTypes, set(&e.Added), set(&e.Removed),
		ids(e.AddedIDs), ids(e.RemovedIDs), rel(e.OldRelation), rel(e.NewRelation), tgt)
}

// selected implements the documented subscription rule on plain sets.
func (b *WB) selected(e *ecs.EntityEvent, spec *SubSpec) bool {
	trigger := event.Subscription(spec.S) & e.EventTypes
	if trigger == 0 {
		return false
	}
	if !spec.HasC {
		return true
	}
	inC := func(id ecs.ID) bool {
		for _, c := range spec.C {
			if b.IDs[c] == id {
				return true
			}
		}
		return false
	}
	touches := func(m *ecs.Mask) bool {
		for _, c := range spec.C {
			if m.Get(b.IDs[c]) {
				return true
			}
		}
		return false
	}
	if trigger&(event.RelationChanged|event.TargetChanged) != 0 {
		if (e.OldRelation != nil && inC(*e.OldRelation)) || (e.NewRelation != nil && inC(*e.NewRelation)) {
			return true
		}
	}
	if trigger&(event.EntityCreated|event.ComponentAdded) != 0 && touches(&e.Added) {
		return true
	}
	if trigger&(event.EntityRemoved|event.ComponentRemoved) != 0 && touches(&e.Removed) {
		return true
	}
	return false
}

// checkSubscriptions compares what every restricted listener received during the current op
// with the rule-selected part of the full stream.
func (s *Sim) checkSubscriptions(o *Op) {
	if len(s.X) == 0 || s.B.Rec == nil || s.Done() {
		return
	}
	full := s.B.Rec.Cur
	for _, sw := range s.X {
		for _, l := range sw.subs {
			want := []string{}
			for i := range full {
				if s.B.selected(&full[i].Evt, &l.spec) {
					want = append(want, s.B.canon(&full[i].Evt))
				}
			}
			got := []string{}
			for i := range l.rec.Cur {
				got = append(got, sw.b.canon(&l.rec.Cur[i].Evt))
			}
			l.seen += len(full)
			l.taken += len(want)
			if (len(want) > 0 && len(want) < len(full)) || (l.taken > 0 && l.taken < l.seen) {
				s.Flag("subs.partial", 1)
			}
			if len(want) > 0 {
				s.Flag("subs.nonempty", 1)
			}
			if strings.Join(got, "\n") != strings.Join(want, "\n") {
				s.Report(finding(CatSubscription, "%s (types %06b, components %v restricted=%v) received\n  %s\nthe documented rule selects from the full stream\n  %s\nfull stream\n  %s\nop: %s",
					l.name, l.spec.S, l.spec.C, l.spec.HasC, strings.Join(got, "\n  "), strings.Join(want, "\n  "), canonAll(s.B, full), o.Describe()))
				return
			}
		}
	}
}

func canonAll(b *WB, evs []RecEvent) string {
	out := []string{}
	for i := range evs {
		out = append(out, b.canon(&evs[i].Evt))
	}
	return strings.Join(out, "\n  ")
}
