package core

import (
	"bytes"
	"fmt"
	"reflect"
	"sort"

	"github.com/mlange-42/arche/ecs"
)

// WB binds one real world to the model: it owns the mapping ordinal <-> handle and
// component index <-> ID, executes operations and observes the world through the public API.
type WB struct {
	Name  string
	W     *ecs.World
	U     *Universe
	IDs   []ecs.ID
	H     []ecs.Entity        // ordinal -> handle (since the last reset)
	Ord   map[ecs.Entity]int  // handle -> ordinal (every handle issued since the last reset)
	Regs  []*Compiled         // slot -> registered filter
	Stale []*ecs.CachedFilter // filters that were unregistered (their use is illegal)
	Rec   *Recorder           // event recorder, nil if no listener is installed

	builders map[string]*ecs.Builder // long-lived builders, by component list and relation
	argIDs   [][]ecs.ID              // argument slices handed to the world during the current op
	argComps [][]ecs.Component       // (scribbled over when the op is finished)

	ResIDs [NumRes]ecs.ResID
	ResPtr [NumRes]any // the pointer handed to Resources.Add

	masks    map[uint32]ecs.Mask
	probeIDs []ecs.ID // registered IDs that no entity ever carries
}

// ResType returns the k-th resource type.
func ResType(k int) reflect.Type { return reflect.ArrayOf(20000+k, reflect.TypeOf(byte(0))) }

// Compiled is a filter expression compiled for one world.
type Compiled struct {
	F      *F
	Flt    ecs.Filter        // the original filter value
	Cached *ecs.CachedFilter // set while registered
	Tgt    ecs.Entity        // resolved target of a top-level relation filter
}

// NewWB creates a world for the universe and registers its types.
func NewWB(name string, u *Universe) *WB {
	b := &WB{Name: name, U: u, Ord: map[ecs.Entity]int{}, masks: map[uint32]ecs.Mask{}}
	b.W = u.NewWorld()
	b.IDs = u.Register(b.W)
	for k := 0; k < NumRes; k++ {
		b.ResIDs[k] = ecs.ResourceTypeID(b.W, ResType(k))
	}
	if u.FullRes {
		for k := NumRes; k < ecs.MaskTotalBits; k++ {
			ecs.ResourceTypeID(b.W, FillerType(5000+k))
		}
	}
	active := map[int]bool{}
	for _, id := range u.IDs {
		active[id] = true
	}
	cand := map[int]bool{0: true, u.MaxID(): true}
	for _, id := range u.IDs {
		for _, d := range []int{-64, -16, -1, 1, 16, 64} {
			cand[id+d] = true
		}
	}
	raw := RawIDs()
	keys := []int{}
	for k := range cand {
		if k >= 0 && k <= u.MaxID() && !active[k] {
			keys = append(keys, k)
		}
	}
	sort.Ints(keys)
	for _, k := range keys {
		b.probeIDs = append(b.probeIDs, raw[k])
	}
	return b
}

// ID maps a component index to the world's ID.
func (b *WB) ID(c int) ecs.ID { return b.IDs[c] }

// MapIDs maps component indices to IDs.
func (b *WB) MapIDs(cs []int) []ecs.ID {
	out := make([]ecs.ID, len(cs))
	for i, c := range cs {
		out[i] = b.IDs[c]
	}
	b.argIDs = append(b.argIDs, out)
	return out
}

// ScribbleArgs overwrites every ID list and component list that was handed to the world since the
// last call: argument slices belong to the caller, who may reuse them as soon as the call (and the
// query it returned) is finished. A world that kept such a slice instead of copying it now sees
// garbage.
func (b *WB) ScribbleArgs() {
	raw := RawIDs()
	for _, s := range b.argIDs {
		for i := range s {
			s[i] = raw[(int(i)*7+len(s)+ecs.MaskTotalBits-1)%ecs.MaskTotalBits]
		}
	}
	for _, s := range b.argComps {
		for i := range s {
			s[i] = ecs.Component{ID: raw[(i*5+ecs.MaskTotalBits-2)%ecs.MaskTotalBits], Comp: nil}
		}
	}
	b.argIDs, b.argComps = b.argIDs[:0], b.argComps[:0]
}

// Handle maps an ordinal (or TZero) to the handle.
func (b *WB) Handle(ord int) ecs.Entity {
	if ord < 0 {
		return ecs.Entity{}
	}
	return b.H[ord]
}

// Bind records newly created handles in ordinal order. It fails on a handle that was already
// issued since the last reset (C02) or that is the zero entity.
func (b *WB) Bind(hs []ecs.Entity) error {
	for _, h := range hs {
		if h.IsZero() {
			return fmt.Errorf("%s: creation returned the zero entity", b.Name)
		}
		if o, dup := b.Ord[h]; dup {
			return fmt.Errorf("%s: creation returned handle %v which was already issued as #%d since the last reset", b.Name, h, o)
		}
		b.Ord[h] = len(b.H)
		b.H = append(b.H, h)
	}
	return nil
}

// ForgetHandles is called on Reset.
func (b *WB) ForgetHandles() {
	b.H = nil
	b.Ord = map[ecs.Entity]int{}
}

// Compile builds the real filter for expression f.
func (b *WB) Compile(f *F) *Compiled {
	c := &Compiled{F: f}
	c.Flt = f.Compile(b.ID, b.Handle)
	if f.T == "rel" {
		c.Tgt = b.Handle(f.Target)
	}
	return c
}

// Filter returns the filter value to pass to the world: the registered one if registered.
func (c *Compiled) Filter() ecs.Filter {
	if c.Cached != nil {
		return c.Cached
	}
	return c.Flt
}

// Expect computes, from the model, which alive entities the compiled filter must select
// (yes) and which it may select (dontcare). Targets are compared by handle.
func (b *WB) Expect(c *Compiled, m *Model) (yes, dontcare []int) {
	same := func(entTarget int) bool { return b.Handle(entTarget) == c.Tgt }
	for ord := range m.Ents {
		e := &m.Ents[ord]
		if !e.Alive {
			continue
		}
		switch m.Match(c.F, e.EntState, same) {
		case Yes:
			yes = append(yes, ord)
		case DontCare:
			dontcare = append(dontcare, ord)
		}
	}
	return
}

// ExpMask returns the ecs.Mask a component set must be reported as.
func (b *WB) ExpMask(comps uint32) ecs.Mask {
	if m, ok := b.masks[comps]; ok {
		return m
	}
	ids := []ecs.ID{}
	for c := 0; c < b.U.N(); c++ {
		if comps&(1<<uint(c)) != 0 {
			ids = append(ids, b.IDs[c])
		}
	}
	m := ecs.All(ids...)
	b.masks[comps] = m
	return m
}

// Call runs f and returns the recovered panic value (nil if none).
func Call(f func()) (p any) {
	defer func() {
		if r := recover(); r != nil {
			p = r
			if p == nil {
				p = "panic(nil)"
			}
		}
	}()
	f()
	return nil
}

// Comp builds the ecs.Component for component index c holding the bytes of token tok.
func (b *WB) Comp(c int, tok uint32) ecs.Component {
	s := b.U.Spec(c)
	return ecs.Component{ID: b.IDs[c], Comp: s.NewValue(Expand(tok, s.Size))}
}

// Comps builds the component list of a value-variant call.
func (b *WB) Comps(cs []int, toks []uint32) []ecs.Component {
	out := make([]ecs.Component, len(cs))
	for i, c := range cs {
		var tok uint32
		if i < len(toks) {
			tok = toks[i]
		}
		out[i] = b.Comp(c, tok)
	}
	b.argComps = append(b.argComps, out)
	return out
}

// VerifyOpts selects what Verify compares.
type VerifyOpts struct {
	Values    bool // component values
	Relations bool // relation targets
	Scan      bool // a full Query(All()) pass
	Hooks     bool // structural invariants through the verif hook
	Dead      bool // Alive == false for every removed handle
	Locked    bool // the caller holds a lock (skip the "unlocked between ops" check)
}

// FullVerify compares everything.
var FullVerify = VerifyOpts{Values: true, Relations: true, Scan: true, Hooks: true, Dead: true}

// Verify compares the world with the model through the public API. A panic of a read accessor
// on a state the model considers legal is reported as an error as well.
func (b *WB) Verify(m *Model, o VerifyOpts) (err error) {
	if p := Call(func() { err = b.verify(m, o) }); p != nil {
		return fmt.Errorf("%s: reading the world panicked: %v", b.Name, p)
	}
	return err
}

func (b *WB) verify(m *Model, o VerifyOpts) error {
	w := b.W
	if len(b.H) != len(m.Ents) {
		return fmt.Errorf("%s: harness bookkeeping: %d handles for %d model entities", b.Name, len(b.H), len(m.Ents))
	}
	if w.Alive(ecs.Entity{}) {
		return fmt.Errorf("%s: the zero entity is reported alive", b.Name)
	}
	if !o.Locked && w.IsLocked() {
		return fmt.Errorf("%s: IsLocked()=true although no query is open", b.Name)
	}
	// ONE call: what a single Stats() call reports must be right (a second call may repair it)
	st := w.Stats()
	es := st.Entities
	if es.Used != m.NAlive {
		return fmt.Errorf("%s: Stats().Entities.Used=%d, creations-removals=%d", b.Name, es.Used, m.NAlive)
	}
	size := 0
	for i := range st.Nodes {
		size += st.Nodes[i].Size
	}
	if size != m.NAlive {
		return fmt.Errorf("%s: Stats().Nodes sizes add up to %d, Entities.Used says %d alive", b.Name, size, m.NAlive)
	}
	ids := map[uint32]bool{}
	for ord := range m.Ents {
		e := &m.Ents[ord]
		h := b.H[ord]
		if w.Alive(h) != e.Alive {
			return fmt.Errorf("%s: Alive(#%d %v)=%v, model says %v", b.Name, ord, h, !e.Alive, e.Alive)
		}
		if !e.Alive {
			continue
		}
		if ids[h.ID()] {
			return fmt.Errorf("%s: two alive entities share id %d", b.Name, h.ID())
		}
		ids[h.ID()] = true
		if err := b.verifyEntity(m, ord, o); err != nil {
			return err
		}
	}
	// the resource registry: IDs obtained at the start stay the IDs of their types (asked by ID first,
	// then by type in reverse order of registration, so that a registry that forgot them cannot
	// rebuild the same numbering unnoticed)
	nres := NumRes
	if b.U.FullRes {
		nres = ecs.MaskTotalBits
	}
	if got := len(ecs.ResourceIDs(w)); got != nres {
		return fmt.Errorf("%s: Resources.registry: ResourceIDs lists %d resource types, %d were registered", b.Name, got, nres)
	}
	for k := NumRes - 1; k >= 0; k-- {
		if tp, ok := ecs.ResourceType(w, b.ResIDs[k]); !ok || tp != ResType(k) {
			return fmt.Errorf("%s: Resources.registry: ResourceType(id of resource %d) = %v,%v", b.Name, k, tp, ok)
		}
		if id := ecs.ResourceTypeID(w, ResType(k)); id != b.ResIDs[k] {
			return fmt.Errorf("%s: Resources.registry: ResourceTypeID(type of resource %d) = %v, it was registered as %v", b.Name, k, id, b.ResIDs[k])
		}
	}
	for k := 0; k < NumRes; k++ {
		has := w.Resources().Has(b.ResIDs[k])
		got := w.Resources().Get(b.ResIDs[k])
		if has != m.Res[k] {
			return fmt.Errorf("%s: Resources.Has(resource %d)=%v, model says %v", b.Name, k, has, m.Res[k])
		}
		if m.Res[k] && got != b.ResPtr[k] {
			return fmt.Errorf("%s: Resources.Get(resource %d) is not the pointer that was added", b.Name, k)
		}
		if !m.Res[k] && got != nil {
			return fmt.Errorf("%s: Resources.Get(resource %d) is not nil although the resource is absent", b.Name, k)
		}
	}
	if o.Scan {
		if err := b.verifyScan(m, o); err != nil {
			return err
		}
	}
	if o.Hooks {
		if err := CheckInvariants(w); err != nil {
			return fmt.Errorf("%s: structural invariant broken: %v", b.Name, err)
		}
	}
	return nil
}

func (b *WB) verifyEntity(m *Model, ord int, o VerifyOpts) error {
	w := b.W
	e := &m.Ents[ord]
	h := b.H[ord]
	if got, want := w.Mask(h), b.ExpMask(e.Comps); got != want {
		return fmt.Errorf("%s: Mask(#%d) differs from the components the history gave it (%v)", b.Name, ord, e.List())
	}
	gotIds := w.Ids(h)
	if len(gotIds) != e.Count() {
		return fmt.Errorf("%s: Ids(#%d) has %d entries, entity should have %v", b.Name, ord, len(gotIds), e.List())
	}
	for _, id := range gotIds {
		found := false
		for _, c := range e.List() {
			if b.IDs[c] == id {
				found = true
			}
		}
		if !found {
			return fmt.Errorf("%s: Ids(#%d) reports %v, entity should have %v", b.Name, ord, id, e.List())
		}
	}
	scribbleIDs(gotIds) // documented as a copy that "can be manipulated safely"
	for c := 0; c < b.U.N(); c++ {
		id := b.IDs[c]
		has := e.Has(c)
		if w.Has(h, id) != has || w.HasUnchecked(h, id) != has {
			return fmt.Errorf("%s: Has(#%d, comp %d)=%v, model says %v", b.Name, ord, c, !has, has)
		}
		p := w.Get(h, id)
		if (p != nil) != has {
			return fmt.Errorf("%s: Get(#%d, comp %d) nil=%v, model says present=%v", b.Name, ord, c, p == nil, has)
		}
		if pu := w.GetUnchecked(h, id); pu != p {
			return fmt.Errorf("%s: GetUnchecked(#%d, comp %d) differs from Get", b.Name, ord, c)
		}
		if has && o.Values {
			s := b.U.Spec(c)
			got := s.Masked(s.ReadBytes(p))
			if !bytes.Equal(got, e.Vals[c]) {
				return fmt.Errorf("%s: value of comp %d (%s) of #%d is %x, last written %x", b.Name, c, s.Name, ord, got, e.Vals[c])
			}
		}
	}
	for _, id := range b.probeIDs {
		if w.Has(h, id) || w.Get(h, id) != nil {
			return fmt.Errorf("%s: #%d reports component %v which it was never given", b.Name, ord, id)
		}
	}
	if o.Relations {
		if rc := m.RelOf(e.Comps); rc >= 0 {
			var got ecs.Entity
			if p := Call(func() { got = w.Relations().Get(h, b.IDs[rc]) }); p != nil {
				return fmt.Errorf("%s: Relations.Get(#%d, comp %d) panicked: %v", b.Name, ord, rc, p)
			}
			if want := b.Handle(e.Target); got != want {
				return fmt.Errorf("%s: Relations.Get(#%d)=%v, last assigned target is #%d %v", b.Name, ord, got, e.Target, want)
			}
			if gu := w.Relations().GetUnchecked(h, b.IDs[rc]); gu != got {
				return fmt.Errorf("%s: Relations.GetUnchecked(#%d)=%v differs from Get=%v", b.Name, ord, gu, got)
			}
		}
	}
	return nil
}

// verifyScan runs a Query(All()) pass: exactly the alive entities, each once, and the query's
// accessors agree with the model at every position.
func (b *WB) verifyScan(m *Model, o VerifyOpts) error {
	w := b.W
	q := w.Query(ecs.All())
	if c := q.Count(); c != m.NAlive {
		q.Close()
		return fmt.Errorf("%s: Query(All()).Count()=%d, %d entities alive", b.Name, c, m.NAlive)
	}
	seen := map[int]bool{}
	var err error
	for q.Next() {
		h := q.Entity()
		ord, ok := b.Ord[h]
		if !ok || !m.Ents[ord].Alive {
			err = fmt.Errorf("%s: Query(All()) visits %v which is not an alive entity", b.Name, h)
			break
		}
		if seen[ord] {
			err = fmt.Errorf("%s: Query(All()) visits #%d twice", b.Name, ord)
			break
		}
		seen[ord] = true
		e := &m.Ents[ord]
		if q.Mask() != b.ExpMask(e.Comps) {
			err = fmt.Errorf("%s: Query.Mask at #%d differs from model (%v)", b.Name, ord, e.List())
			break
		}
		qids := q.Ids()
		if len(qids) != e.Count() {
			err = fmt.Errorf("%s: Query.Ids at #%d has %d entries, want %v", b.Name, ord, len(qids), e.List())
			break
		}
		scribbleIDs(qids)
		for c := 0; c < b.U.N() && err == nil; c++ {
			has := e.Has(c)
			if q.Has(b.IDs[c]) != has {
				err = fmt.Errorf("%s: Query.Has(comp %d) at #%d = %v, model says %v", b.Name, c, ord, !has, has)
				break
			}
			p := q.Get(b.IDs[c])
			if (p != nil) != has {
				err = fmt.Errorf("%s: Query.Get(comp %d) at #%d nil=%v, model says present=%v", b.Name, c, ord, p == nil, has)
				break
			}
			if has && p != w.Get(h, b.IDs[c]) {
				err = fmt.Errorf("%s: Query.Get(comp %d) at #%d differs from World.Get", b.Name, c, ord)
				break
			}
			if has && o.Values {
				s := b.U.Spec(c)
				if got := s.Masked(s.ReadBytes(p)); !bytes.Equal(got, e.Vals[c]) {
					err = fmt.Errorf("%s: Query.Get value of comp %d of #%d is %x, last written %x", b.Name, c, ord, got, e.Vals[c])
					break
				}
			}
		}
		if err != nil {
			break
		}
		if o.Relations {
			if rc := m.RelOf(e.Comps); rc >= 0 {
				if got, want := q.Relation(b.IDs[rc]), b.Handle(e.Target); got != want {
					err = fmt.Errorf("%s: Query.Relation at #%d = %v, last assigned target is #%d %v", b.Name, ord, got, e.Target, want)
					break
				}
			}
		}
	}
	if err != nil {
		q.Close()
		return err
	}
	if len(seen) != m.NAlive {
		return fmt.Errorf("%s: Query(All()) visited %d entities, %d alive", b.Name, len(seen), m.NAlive)
	}
	if w.IsLocked() {
		return fmt.Errorf("%s: world still locked after the query was exhausted", b.Name)
	}
	return nil
}

// NewHandles scans the world for alive handles the binding does not know yet (entities created
// by a batch call that returns no query), in query order.
func (b *WB) NewHandles() []ecs.Entity {
	out := []ecs.Entity{}
	q := b.W.Query(ecs.All())
	for q.Next() {
		h := q.Entity()
		if _, ok := b.Ord[h]; !ok {
			out = append(out, h)
		}
	}
	return out
}

// scribbleIDs overwrites a slice the library handed out as a copy.
func scribbleIDs(ids []ecs.ID) {
	raw := RawIDs()
	for i := range ids {
		ids[i] = raw[(i*3+ecs.MaskTotalBits-1)%ecs.MaskTotalBits]
	}
}

// consistent checks, model-free, that the world is a consistent one: Query(All()) visits alive
// entities only, each once, as many as Stats reports alive, and the structural invariants hold.
func (b *WB) consistent() (msg string) {
	defer func() {
		if p := recover(); p != nil {
			msg = fmt.Sprintf("reading the world panicked: %v", p)
		}
	}()
	if b.W.IsLocked() {
		return "the world is locked although no query is open"
	}
	seen := map[ecs.Entity]bool{}
	q := b.W.Query(ecs.All())
	for q.Next() {
		e := q.Entity()
		if !b.W.Alive(e) {
			q.Close()
			return fmt.Sprintf("Query(All()) visits %v, which is not alive", e)
		}
		if seen[e] {
			q.Close()
			return fmt.Sprintf("Query(All()) visits %v twice", e)
		}
		seen[e] = true
	}
	if used := b.W.Stats().Entities.Used; used != len(seen) {
		return fmt.Sprintf("Query(All()) visits %d entities, Stats reports %d alive", len(seen), used)
	}
	for e := range seen {
		ids := b.W.Ids(e)
		m := b.W.Mask(e)
		if m.TotalBitsSet() != len(ids) {
			return fmt.Sprintf("entity %v: Mask has %d bits, Ids lists %d", e, m.TotalBitsSet(), len(ids))
		}
	}
	if err := CheckInvariants(b.W); err != nil {
		return "structural invariant broken: " + err.Error()
	}
	return ""
}
