package core

import (
	"reflect"
	"sync"

	"github.com/mlange-42/arche/ecs"
)

var (
	rawIDsOnce sync.Once
	rawIDs     []ecs.ID
)

// FillerType returns the i-th filler component type: a type that is only registered to occupy
// an ID and never instantiated on an entity.
func FillerType(i int) reflect.Type {
	return reflect.ArrayOf(10000+i, reflect.TypeOf(byte(0)))
}

// RawIDs returns the ecs.ID values 0 … MaskTotalBits-1 (obtained the only public way there is:
// by registering that many types in a scratch world).
func RawIDs() []ecs.ID {
	rawIDsOnce.Do(func() {
		w := ecs.NewWorld()
		for i := 0; i < ecs.MaskTotalBits; i++ {
			rawIDs = append(rawIDs, ecs.TypeID(&w, FillerType(i)))
		}
	})
	return rawIDs
}
