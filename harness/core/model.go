package core

import (
	"fmt"
	"math/bits"
)

// The reference model. It is written from the documentation of arche (doc comments, user
// guide) and contains no arche type. Entities are named by creation ordinal; components by
// component index of the universe.

// EntState is the structural state of an entity.
type EntState struct {
	Comps  uint32 // bit c = has component index c
	Target int    // ordinal of the relation target, TZero if none (always TZero without relation component)
}

// MEnt is an entity of the model.
type MEnt struct {
	Alive bool
	EntState
	Vals [][]byte // per component index: the value bytes (padding cleared); nil if absent
}

// RegFilter is a registered filter of the model.
type RegFilter struct {
	F     *F
	Epoch int // reset epoch in which the filter's target ordinal is meaningful
}

// Model is the reference state of one world.
type Model struct {
	U      *Universe
	Ents   []MEnt
	NAlive int
	Regs   []*RegFilter // by slot; nil = free slot
	Epoch  int          // number of resets so far
	NStale int          // number of filters unregistered so far
	// Creations / Removals since the last reset (C02).
	Creations, Removals int
	// Res: which of the NumRes resource types currently has a value.
	Res [NumRes]bool
}

// NumRes is the number of resource types every simulated world registers.
const NumRes = 3

// Change describes what an operation did to one entity.
type Change struct {
	Ord              int
	Created, Removed bool
	Before, After    EntState
	// AddIDs / RemIDs are the lists as passed to the call (events report them).
	AddIDs, RemIDs []int
}

// NewModel creates an empty model.
func NewModel(u *Universe) *Model {
	return &Model{U: u}
}

// Has reports whether the state has component c.
func (s EntState) Has(c int) bool { return s.Comps&(1<<uint(c)) != 0 }

// Count returns the number of components.
func (s EntState) Count() int { return bits.OnesCount32(s.Comps) }

// List returns the component indices in ascending order.
func (s EntState) List() []int {
	out := []int{}
	for c := 0; c < 32; c++ {
		if s.Comps&(1<<uint(c)) != 0 {
			out = append(out, c)
		}
	}
	return out
}

// RelOf returns the relation component of a component set, or -1.
func (m *Model) RelOf(comps uint32) int {
	for c := len(m.U.Plain); c < m.U.N(); c++ {
		if comps&(1<<uint(c)) != 0 {
			return c
		}
	}
	return -1
}

// AliveOrds returns the ordinals of alive entities in creation order.
func (m *Model) AliveOrds() []int {
	out := make([]int, 0, m.NAlive)
	for i := range m.Ents {
		if m.Ents[i].Alive {
			out = append(out, i)
		}
	}
	return out
}

// DeadOrds returns the ordinals of removed entities.
func (m *Model) DeadOrds() []int {
	out := []int{}
	for i := range m.Ents {
		if !m.Ents[i].Alive {
			out = append(out, i)
		}
	}
	return out
}

// TargetOK reports whether t may be assigned as a relation target.
func (m *Model) TargetOK(t int) bool {
	if t == TZero {
		return true
	}
	return t >= 0 && t < len(m.Ents) && m.Ents[t].Alive
}

// Illegal is the model's verdict that the documentation declares a call illegal.
type Illegal struct{ Why string }

func (i *Illegal) Error() string { return i.Why }

func illegal(format string, args ...any) *Illegal { return &Illegal{fmt.Sprintf(format, args...)} }

// CreateState computes the state of an entity created with the given components.
// hasTarget: a target argument was given together with relation component rel.
func (m *Model) CreateState(ids []int, hasTarget bool, rel int, target int) (EntState, *Illegal) {
	var s EntState
	s.Target = TZero
	for _, c := range ids {
		if s.Has(c) {
			return s, illegal("component %d given twice", c)
		}
		if m.U.IsRel(c) && m.RelOf(s.Comps) >= 0 {
			return s, illegal("second relation component %d", c)
		}
		s.Comps |= 1 << uint(c)
	}
	if hasTarget {
		if !m.TargetOK(target) {
			return s, illegal("dead relation target #%d", target)
		}
		if !s.Has(rel) {
			return s, illegal("relation component %d is not among the created components", rel)
		}
		if !m.U.IsRel(rel) {
			return s, illegal("component %d is not a relation", rel)
		}
		s.Target = target
	}
	return s, nil
}

// ExchangeState applies add/remove lists to a state following World.Exchange /
// Relations.Exchange. hasRel: a relation component and target were given explicitly.
// The bool result reports whether anything was requested at all (false = documented no-op).
func (m *Model) ExchangeState(s EntState, add, rem []int, hasRel bool, rel int, target int) (EntState, bool, *Illegal) {
	if len(add) == 0 && len(rem) == 0 {
		if hasRel {
			return s, false, illegal("exchange without components but with a relation target")
		}
		return s, false, nil
	}
	orig := s
	removedRel := false
	for _, c := range rem {
		if !s.Has(c) {
			return orig, true, illegal("component %d is not present (or removed twice)", c)
		}
		s.Comps &^= 1 << uint(c)
		if m.U.IsRel(c) {
			removedRel = true
		}
	}
	for _, c := range add {
		if s.Has(c) {
			return orig, true, illegal("component %d is already present (or added twice)", c)
		}
		if orig.Has(c) {
			return orig, true, illegal("component %d added and removed in one call", c)
		}
		if m.U.IsRel(c) && m.RelOf(s.Comps) >= 0 {
			return orig, true, illegal("second relation component %d", c)
		}
		s.Comps |= 1 << uint(c)
	}
	if hasRel {
		if !s.Has(rel) {
			return orig, true, illegal("resulting entity has no component %d", rel)
		}
		if !m.U.IsRel(rel) {
			return orig, true, illegal("component %d is not a relation", rel)
		}
		if !m.TargetOK(target) {
			return orig, true, illegal("dead relation target #%d", target)
		}
		s.Target = target
	} else {
		if removedRel || m.RelOf(s.Comps) < 0 {
			s.Target = TZero
		}
	}
	return s, true, nil
}

// --- mutators -------------------------------------------------------------------------------

func (m *Model) zeroVal(c int) []byte { return make([]byte, m.U.Spec(c).Size) }

// Create adds n entities with state s; vals gives initial value bytes per component index
// (nil entries = zero value). Returns the changes (ordinals are assigned here).
func (m *Model) Create(s EntState, vals map[int][]byte, n int, addIDs []int) []Change {
	out := make([]Change, 0, n)
	for i := 0; i < n; i++ {
		e := MEnt{Alive: true, EntState: s, Vals: make([][]byte, m.U.N())}
		for _, c := range s.List() {
			if v, ok := vals[c]; ok && v != nil {
				e.Vals[c] = m.U.Spec(c).Masked(v)
			} else {
				e.Vals[c] = m.zeroVal(c)
			}
		}
		m.Ents = append(m.Ents, e)
		m.NAlive++
		m.Creations++
		out = append(out, Change{Ord: len(m.Ents) - 1, Created: true, Before: EntState{Target: TZero}, After: s, AddIDs: addIDs})
	}
	return out
}

// Remove removes entity ord.
func (m *Model) Remove(ord int) Change {
	e := &m.Ents[ord]
	ch := Change{Ord: ord, Removed: true, Before: e.EntState, After: EntState{Target: TZero}, RemIDs: e.List()}
	e.Alive = false
	e.Vals = nil
	m.NAlive--
	m.Removals++
	return ch
}

// SetState moves entity ord to state s: kept components keep their values, new ones are zero
// or take the given value.
func (m *Model) SetState(ord int, s EntState, vals map[int][]byte, addIDs, remIDs []int) Change {
	e := &m.Ents[ord]
	ch := Change{Ord: ord, Before: e.EntState, After: s, AddIDs: addIDs, RemIDs: remIDs}
	for c := 0; c < m.U.N(); c++ {
		had, has := e.Has(c), s.Has(c)
		switch {
		case has && !had:
			if v, ok := vals[c]; ok && v != nil {
				e.Vals[c] = m.U.Spec(c).Masked(v)
			} else {
				e.Vals[c] = m.zeroVal(c)
			}
		case !has && had:
			e.Vals[c] = nil
		}
	}
	e.EntState = s
	return ch
}

// SetVal records a write of component c of entity ord.
func (m *Model) SetVal(ord, c int, v []byte) {
	m.Ents[ord].Vals[c] = m.U.Spec(c).Masked(v)
}

// Reset empties the model (registrations stay).
func (m *Model) Reset() {
	m.Ents = nil
	m.NAlive = 0
	m.Epoch++
	m.Creations, m.Removals = 0, 0
	m.Res = [NumRes]bool{}
}

// --- filters ----------------------------------------------------------------------------------

// Tri is a three-valued match verdict.
type Tri int

// Match verdicts.
const (
	No Tri = iota
	Yes
	DontCare // an entity without relation component under a top-level relation filter (DESIGN 4.5)
)

// Match evaluates filter f on an entity state. sameTarget decides whether the filter's target
// equals the entity's target (the caller compares handles; see World.Expect).
func (m *Model) Match(f *F, s EntState, sameTarget func(entTarget int) bool) Tri {
	has := func(c int) bool { return s.Has(c) }
	if f.T == "rel" {
		if !f.L.Eval(has, s.Count()) {
			return No
		}
		if m.RelOf(s.Comps) < 0 {
			return DontCare
		}
		if sameTarget(s.Target) {
			return Yes
		}
		return No
	}
	if f.Eval(has, s.Count()) {
		return Yes
	}
	return No
}

// MatchOrd evaluates a filter purely on ordinals (valid within one reset epoch); used by
// generators to steer, never by oracles.
func (m *Model) MatchOrd(f *F, s EntState) Tri {
	return m.Match(f, s, func(t int) bool { return t == f.Target })
}
