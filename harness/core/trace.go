package core

import (
	"fmt"
	"hash/fnv"
	"strings"

	"github.com/mlange-42/arche/ecs"
)

// CatDeterminism: two fresh worlds given the same operations behaved differently (C13).
const CatDeterminism = "determinism"

// CatResetDiff: a reset world behaves differently from a fresh one (C15).
const CatResetDiff = "resetdiff"

// CatSubscription: a restricted listener / Dispatch sub-listener got a wrong part of the stream (C12).
const CatSubscription = "subscription"

// traceStep renders everything the primary world returned or reported for the op just
// executed, with raw handles and in the order the world produced it.
func (s *Sim) traceStep(o *Op, prevHandles int) string {
	b := s.B
	sb := strings.Builder{}
	fmt.Fprintf(&sb, "op %s\n", o.K)
	fmt.Fprintf(&sb, "new %v\n", b.H[min(prevHandles, len(b.H)):])
	if s.Flags != nil {
		fmt.Fprintf(&sb, "count %d sel %d\n", s.Flags["batch.count"], s.Flags["batch.selected"])
	}
	if len(s.LastQueryOrder) > 0 {
		fmt.Fprintf(&sb, "query %v\n", s.LastQueryOrder)
	}
	order := []ecs.Entity{}
	q := b.W.Query(ecs.All())
	for q.Next() {
		order = append(order, q.Entity())
	}
	fmt.Fprintf(&sb, "all %v\n", order)
	for slot, c := range b.Regs {
		if c == nil {
			continue
		}
		ro := []ecs.Entity{}
		q := b.W.Query(c.Cached)
		for q.Next() {
			ro = append(ro, q.Entity())
		}
		fmt.Fprintf(&sb, "reg %d %v\n", slot, ro)
	}
	if b.Rec != nil {
		for i := range b.Rec.Cur {
			e := &b.Rec.Cur[i].Evt
			fmt.Fprintf(&sb, "ev %v %06b +%v -%v +%v -%v %s %s %v\n", e.Entity, e.EventTypes, e.Added, e.Removed, e.AddedIDs, e.RemovedIDs,
				relName(e.OldRelation), relName(e.NewRelation), e.OldTarget)
		}
	}
	d := b.W.DumpEntities()
	fmt.Fprintf(&sb, "dump %v %v %d %d\n", d.Entities, d.Alive, d.Next, d.Available)
	if HooksEnabled && !s.Cfg.TraceNoShape {
		h := fnv.New64a()
		h.Write([]byte(Shape(b.W)))
		fmt.Fprintf(&sb, "shape %x\n", h.Sum64())
	}
	return sb.String()
}

// TraceDigest hashes a whole trace.
func TraceDigest(tr []string) uint64 {
	h := fnv.New64a()
	for _, t := range tr {
		h.Write([]byte(t))
	}
	return h.Sum64()
}
