package core

import (
	"fmt"
	"reflect"
	"strings"

	"github.com/mlange-42/arche/ecs"
	"github.com/mlange-42/arche/ecs/event"
	"pgregory.net/rapid"
)

// World lock episodes (C09).

// Operation kinds of lock episodes.
const (
	OpLockEpisode = "lockEpisode"  // hold locks, attempt every structural call, release
	OpLockLimit   = "lockLimit"    // open queries up to the limit, one more, close all
	OpLockDuring  = "lockDuring"   // hold the lock of a Q-variant's query / a removal event (Sub2), attempt every structural call
	OpRegisterNew = "registerNew"  // first-time TypeID of a new component type (attempt only)
	OpLoadEnts    = "loadEntities" // LoadEntities of a dump (attempt only)
)

// Exec performs the raw call of a structural op without any bookkeeping. It is used for calls
// that are expected to be rejected (locked world).
func (b *WB) Exec(o *Op) {
	switch o.K {
	case OpNew:
		b.W.NewEntity(b.MapIDs(o.Add)...)
	case OpNewWith:
		b.W.NewEntityWith(b.Comps(o.Add, o.Tok)...)
	case OpBuildNew:
		bl := b.builder(o)
		if o.T != TNone {
			bl.New(b.Handle(o.T))
		} else {
			bl.New()
		}
	case OpBuildBatch:
		bl := b.builder(o)
		switch {
		case o.Q && o.T != TNone:
			q := bl.NewBatchQ(o.N, b.Handle(o.T))
			q.Close()
		case o.Q:
			q := bl.NewBatchQ(o.N)
			q.Close()
		case o.T != TNone:
			bl.NewBatch(o.N, b.Handle(o.T))
		default:
			bl.NewBatch(o.N)
		}
	case OpRemoveEnt:
		b.W.RemoveEntity(b.Handle(o.E))
	case OpAdd, OpRemove, OpExchange, OpAssign, OpBuildAdd, OpRelExchange:
		b.execExchange(o)
	case OpRelSet:
		b.W.Relations().Set(b.Handle(o.E), b.IDs[o.C], b.Handle(o.T))
	case OpRemoveEnts, OpBatchAdd, OpBatchRemove, OpBatchExch, OpBatchSetRel, OpRelExchB:
		var f ecs.Filter
		if o.Reg {
			f = b.Regs[o.Slot].Cached
		} else {
			f = b.Compile(o.F).Flt
		}
		_, q := b.execBatch(o, f)
		if q != nil {
			q.Close()
		}
	case OpReset:
		b.W.Reset()
	case OpLoadEnts, OpDumpLoad:
		d := ecs.EntityDump{Entities: []ecs.Entity{{}}, Alive: []uint32{}, Next: 0, Available: 0}
		b.W.LoadEntities(&d)
	case OpRegisterNew:
		ecs.TypeID(b.W, newTypeFor(o))
	default:
		panic("harness: Exec of non-structural op " + o.K)
	}
}

// StructuralKinds is the table of ID-based structural entry points walked by C09 (DESIGN
// appendix A); Q marks the variants that return a query.
var StructuralKinds = []struct {
	K string
	Q bool
}{
	{OpNew, false}, {OpNewWith, false}, {OpBuildNew, false}, {OpBuildBatch, false}, {OpBuildBatch, true},
	{OpRemoveEnt, false}, {OpRemoveEnts, false},
	{OpAdd, false}, {OpRemove, false}, {OpExchange, false}, {OpAssign, false}, {OpBuildAdd, false}, {OpRelExchange, false},
	{OpRelSet, false},
	{OpBatchAdd, false}, {OpBatchAdd, true}, {OpBatchRemove, false}, {OpBatchRemove, true},
	{OpBatchExch, false}, {OpBatchExch, true}, {OpBatchSetRel, false}, {OpBatchSetRel, true},
	{OpRelExchB, false}, {OpRelExchB, true},
	{OpReset, false}, {OpLoadEnts, false}, {OpRegisterNew, false},
}

// lockProbe is the listener used to hold the "removal event" lock.
type lockProbe struct {
	inner ecs.Listener
	f     func()
	fired bool
	subs  event.Subscription // the probe's own subscription (generated); 0 = EntityRemoved
}

func (l *lockProbe) Notify(w *ecs.World, e ecs.EntityEvent) {
	if e.EventTypes.Contains(event.EntityRemoved) && !l.fired {
		l.fired = true
		l.f()
	}
	if l.inner != nil && l.inner.Subscriptions()&e.EventTypes != 0 {
		l.inner.Notify(w, e)
	}
}
func (l *lockProbe) Subscriptions() event.Subscription {
	own := l.subs
	if own == 0 {
		own = event.EntityRemoved
	}
	if l.inner != nil {
		return l.inner.Subscriptions() | own
	}
	return own
}
func (l *lockProbe) Components() *ecs.Mask { return nil }

// attemptAll runs every attempt of the episode on a locked world: each must panic with the
// locked-world message and leave the hidden state exactly as it was.
func (s *Sim) attemptAll(b *WB, o *Op, locks int) *Finding {
	if !b.W.IsLocked() {
		return finding(CatLock, "%s: IsLocked()=false while %d locks are held", b.Name, locks)
	}
	if lc := LockCount(b.W); lc >= 0 && locks >= 0 && lc != locks {
		return finding(CatLock, "%s: %d lock bits set while %d queries are open", b.Name, lc, locks)
	}
	before := Shape(b.W)
	for i := range o.Sub {
		a := &o.Sub[i]
		if a.K == OpRegisterNew && len(ecs.ComponentIDs(b.W)) >= ecs.MaskTotalBits {
			continue // the registry is full: the registration would be refused for that reason
		}
		p := Call(func() { b.Exec(a) })
		if p == nil {
			return finding(CatLock, "%s: structural call succeeded on a locked world: %s", b.Name, a.Describe())
		}
		// (any wording that mentions the lock: the property fixes the panic, not its text)
		if msg := fmt.Sprint(p); !strings.Contains(strings.ToLower(msg), "lock") {
			return finding(CatLock, "%s: structural call on a locked world panicked with %q instead of the locked-world message: %s", b.Name, msg, a.Describe())
		}
		if after := Shape(b.W); after != before {
			return finding(CatLock, "%s: rejected call on a locked world changed the world: %s\n--- before\n%s--- after\n%s", b.Name, a.Describe(), before, after)
		}
		if !b.W.IsLocked() {
			return finding(CatLock, "%s: rejected call released the lock: %s", b.Name, a.Describe())
		}
		s.label("locked attempt: " + a.K)
	}
	if locks < 0 {
		// the lock belongs to a call in progress: the model is only updated when it finishes
		return nil
	}
	// reads keep working under lock
	if err := b.Verify(s.M, VerifyOpts{Values: true, Relations: true, Scan: false, Hooks: false, Dead: true, Locked: true}); err != nil {
		return finding(CatLock, "%s: after the rejected calls the world differs from before: %v", b.Name, err)
	}
	return nil
}

// doLockEpisode: see OpLockEpisode.
//
//	V: 0 = plain/registered queries (N of them, Script gives per query the release path),
//	   2 = the query returned by a Q-variant batch call (Sub2 holds that call),
//	   3 = inside the removal event of entity E.
func (s *Sim) doLockEpisode(o *Op) {
	for _, b := range s.Worlds() {
		var fd *Finding
		locks0 := LockCount(b.W)
		if b.W.IsLocked() {
			s.Report(finding(CatLock, "%s: world locked before the episode", b.Name))
			return
		}
		fd = s.lockByQueries(b, o)
		if fd != nil {
			s.Report(fd)
			return
		}
		if b.W.IsLocked() {
			s.Report(finding(CatLock, "%s: world still locked after all queries were released", b.Name))
			return
		}
		if lc := LockCount(b.W); lc != locks0 {
			s.Report(finding(CatLock, "%s: %d lock bits set after all queries were released", b.Name, lc))
			return
		}
	}
}

// release ends query q by the given path; returns an error text if the query does not end.
func release(q *ecs.Query, how QStep) string {
	switch how.K {
	case "close":
		q.Close()
	case "countclose":
		q.Count()
		q.Close()
	case "atclose":
		if q.Count() > 0 {
			q.EntityAt(how.N % q.Count())
		}
		q.Close()
	case "step":
		n := how.N
		if n < 1 {
			n = 1
		}
		for i := 0; q.Step(n); i++ {
			if i > 100000 {
				return "Step never exhausted the query"
			}
		}
	case "nextclose":
		q.Next()
		// the query may have been exhausted (and closed) by that Next if it is empty
		if q.Count() > 0 {
			q.Close()
		}
	default: // "next"
		for i := 0; q.Next(); i++ {
			if i > 100000 {
				return "Next never exhausted the query"
			}
		}
	}
	return ""
}

func (s *Sim) lockByQueries(b *WB, o *Op) (fd *Finding) {
	n := o.N
	if n < 1 {
		n = 1
	}
	qs := make([]ecs.Query, 0, n)
	openIdx := []int{}
	p := Call(func() {
		for i := 0; i < n; i++ {
			var f ecs.Filter
			if o.Reg && i%2 == 1 && o.Slot < len(b.Regs) && b.Regs[o.Slot] != nil {
				f = b.Regs[o.Slot].Cached
			} else {
				f = b.Compile(o.F).Flt
			}
			qs = append(qs, b.W.Query(f))
			openIdx = append(openIdx, i)
		}
		if fd = s.attemptAll(b, o, n); fd != nil {
			return
		}
		// release in the scripted order
		order := seq(n)
		for i, st := range o.Script {
			if i < n {
				j := st.N % n
				order[i], order[j] = order[j], order[i]
			}
		}
		remaining := n
		for _, qi := range order {
			how := QStep{K: "close"}
			if qi < len(o.Script) {
				how = o.Script[qi]
			}
			// "nextclose" on an empty query: Next exhausts and closes it; Count afterwards
			// would touch a closed query, so decide by a fresh count first
			if how.K == "nextclose" {
				if qs[qi].Count() == 0 {
					how.K = "next"
				} else {
					qs[qi].Next()
					qs[qi].Close()
					how.K = "done"
				}
			}
			if how.K != "done" {
				if msg := release(&qs[qi], how); msg != "" {
					fd = finding(CatLock, "%s: %s", b.Name, msg)
					return
				}
			}
			remaining--
			s.label("release: " + o.ScriptKind(qi))
			if b.W.IsLocked() != (remaining > 0) {
				fd = finding(CatLock, "%s: IsLocked()=%v with %d queries still open (after releasing one by %s)", b.Name, b.W.IsLocked(), remaining, o.ScriptKind(qi))
				return
			}
			if lc := LockCount(b.W); lc >= 0 && lc != remaining {
				fd = finding(CatLock, "%s: %d lock bits set with %d queries open (after releasing one by %s)", b.Name, lc, remaining, o.ScriptKind(qi))
				return
			}
			if (qi+o.N+len(o.Script))%3 == 0 {
				// "released exactly once": closing the query that has just ended a second time (the code
				// refuses it as an unbalanced unlock) releases nothing that other open queries hold
				p2 := Call(func() { qs[qi].Close() })
				if b.W.IsLocked() != (remaining > 0) {
					fd = finding(CatLock, "%s: closing an already released query again (panic: %v) changed IsLocked to %v with %d queries still open", b.Name, p2, b.W.IsLocked(), remaining)
					return
				}
				if lc := LockCount(b.W); lc >= 0 && lc != remaining {
					fd = finding(CatLock, "%s: closing an already released query again (panic: %v) left %d lock bits set with %d queries open", b.Name, p2, lc, remaining)
					return
				}
				s.label("released query closed again")
			}
			if remaining > 0 && len(o.Sub) > 0 {
				// still locked: a structural call must still be rejected
				a := &o.Sub[qi%len(o.Sub)]
				if p := Call(func() { b.Exec(a) }); p == nil {
					fd = finding(CatLock, "%s: structural call succeeded while %d queries are still open: %s", b.Name, remaining, a.Describe())
					return
				}
			}
		}
	})
	if p != nil && fd == nil {
		fd = finding(CatLock, "%s: lock episode panicked: %v", b.Name, p)
	}
	return fd
}

// ScriptKind names the release path of query i.
func (o *Op) ScriptKind(i int) string {
	if i < len(o.Script) {
		return o.Script[i].K
	}
	return "close"
}

// doLockLimit opens queries up to the limit, checks that one more is refused, closes all of
// them in a scripted order and checks that queries and structural calls work again.
func (s *Sim) doLockLimit(o *Op) {
	limit := ecs.MaskTotalBits
	for _, b := range s.Worlds() {
		var fd *Finding
		p := Call(func() {
			qs := make([]ecs.Query, 0, limit)
			for i := 0; i < limit; i++ {
				var q ecs.Query
				if pp := Call(func() { q = b.W.Query(ecs.All()) }); pp != nil {
					fd = finding(CatLock, "%s: opening query number %d of %d allowed panicked: %v", b.Name, i+1, limit, pp)
					for k := range qs {
						qs[k].Close()
					}
					return
				}
				qs = append(qs, q)
			}
			if lc := LockCount(b.W); lc >= 0 && lc != limit {
				fd = finding(CatLock, "%s: %d lock bits set with %d queries open", b.Name, lc, limit)
			}
			if fd == nil {
				if pp := Call(func() { q := b.W.Query(ecs.All()); q.Close() }); pp == nil {
					fd = finding(CatLock, "%s: query number %d (one more than the limit) was not refused", b.Name, limit+1)
				}
			}
			if fd == nil {
				fd = s.attemptAll(b, o, limit)
			}
			// close all, in an order derived from the script
			order := seq(limit)
			for i, st := range o.Script {
				j := (i*31 + st.N) % limit
				k := (i*17 + 3*st.N + 1) % limit
				order[j], order[k] = order[k], order[j]
			}
			if o.V == 1 {
				for i, j := 0, limit-1; i < j; i, j = i+1, j-1 {
					order[i], order[j] = order[j], order[i]
				}
			}
			for n, qi := range order {
				qs[qi].Close()
				if fd == nil && b.W.IsLocked() != (n < limit-1) {
					fd = finding(CatLock, "%s: IsLocked()=%v after closing %d of %d queries", b.Name, b.W.IsLocked(), n+1, limit)
				}
			}
			if fd != nil {
				return
			}
			if lc := LockCount(b.W); lc > 0 {
				fd = finding(CatLock, "%s: %d lock bits set after all %d queries were closed", b.Name, lc, limit)
				return
			}
			// everything works again
			if pp := Call(func() {
				q := b.W.Query(ecs.All())
				for q.Next() {
				}
			}); pp != nil {
				fd = finding(CatLock, "%s: after opening %d queries and closing all of them, a new query panics: %v", b.Name, limit, pp)
				return
			}
			if pp := Call(func() {
				q1 := b.W.Query(ecs.All())
				q2 := b.W.Query(ecs.All())
				q1.Close()
				q2.Close()
			}); pp != nil {
				fd = finding(CatLock, "%s: after a full lock cycle, two nested queries panic: %v", b.Name, pp)
			}
		})
		if p != nil && fd == nil {
			fd = finding(CatLock, "%s: lock-limit episode panicked: %v", b.Name, p)
		}
		if fd != nil {
			s.Report(fd)
			return
		}
		if b.W.IsLocked() {
			s.Report(finding(CatLock, "%s: world still locked after the lock-limit episode", b.Name))
			return
		}
	}
	s.label("lock limit reached")
}

// HoldDuring runs the op `inner` (a Q-variant batch call or a removal) through the normal
// path and, while its lock is held (returned query open / removal event being delivered),
// attempts every structural call of `o.Sub`.
func (s *Sim) doLockDuring(o *Op) {
	if len(o.Sub2) != 1 {
		s.Report(finding(CatHarness, "lockDuring needs exactly one inner op"))
		return
	}
	inner := o.Sub2[0]
	fired := map[*WB]bool{}
	var hookErr *Finding
	s.QueryHook = func(b *WB, q *ecs.Query) *Finding {
		fired[b] = true
		return s.attemptAll(b, o, -1)
	}
	var probes []*lockProbe
	if inner.K == OpRemoveEnt || inner.K == OpRemoveEnts {
		for _, b := range s.Worlds() {
			b := b
			// the probe subscribes to generated event types: a removal is also delivered (and the
			// world locked meanwhile) to a listener interested only in what the removal implies
			// (components removed, relation / target changed)
			lp := &lockProbe{subs: event.Subscription(o.V & 63)}
			if b.Rec != nil {
				lp.inner = b.Rec
			}
			lp.f = func() {
				fired[b] = true
				if fd := s.attemptAll(b, o, -1); fd != nil && hookErr == nil {
					hookErr = fd
				}
			}
			b.W.SetListener(lp)
			probes = append(probes, lp)
		}
	}
	// run the inner op without re-entering Apply's bookkeeping of ops
	s.applyInner(&inner)
	s.QueryHook = nil
	if probes != nil {
		for _, b := range s.Worlds() {
			if b.Rec != nil {
				b.W.SetListener(b.Rec)
			} else {
				b.W.SetListener(nil)
			}
		}
	}
	if s.Done() {
		return
	}
	if hookErr != nil {
		s.Report(hookErr)
		return
	}
	for _, b := range s.Worlds() {
		if fired[b] {
			s.label("lock held by: " + inner.K)
		}
		if b.W.IsLocked() {
			s.Report(finding(CatLock, "%s: world still locked after %s finished", b.Name, inner.K))
			return
		}
	}
}

// newTypeFor builds the fresh component type of a registerNew op: V=1 a relation type.
func newTypeFor(o *Op) reflect.Type {
	arr := reflect.ArrayOf(30000+o.N, reflect.TypeOf(byte(0)))
	if o.V == 1 {
		return reflect.StructOf([]reflect.StructField{relField(), {Name: "V", Type: arr}})
	}
	return arr
}

// doRegisterNew registers a brand-new component type on an unlocked world: it must get the
// next dense ID.
func (s *Sim) doRegisterNew(o *Op) {
	for _, b := range s.Worlds() {
		n := len(ecs.ComponentIDs(b.W))
		if n >= ecs.MaskTotalBits {
			continue
		}
		tp := newTypeFor(o)
		var id ecs.ID
		if p := Call(func() { id = ecs.TypeID(b.W, tp) }); p != nil {
			s.Report(finding(CatLock, "%s: registering a new component type on an unlocked world panicked: %v", b.Name, p))
			return
		}
		if got := len(ecs.ComponentIDs(b.W)); got != n+1 || id != RawIDs()[n] {
			s.Report(finding(CatLock, "%s: new component type got id %v with %d types registered before (registry now %d)", b.Name, id, n, got))
			return
		}
		if info, ok := ecs.ComponentInfo(b.W, id); !ok || info.IsRelation != (o.V == 1) || info.Type != tp {
			s.Report(finding(CatLock, "%s: ComponentInfo of the new component type %v is %+v (relation type: %v)", b.Name, tp, info, o.V == 1))
			return
		}
	}
}

// DrawLockOp draws a lock episode for the current model state: the attempts cover the whole
// table of structural entry points (one legal instance each, plus no-effect forms).
func (g *Gen) DrawLockOp(t *rapid.T, unique int) Op {
	m := g.M
	attempts := []Op{}
	for _, sk := range StructuralKinds {
		switch sk.K {
		case OpReset, OpLoadEnts:
			attempts = append(attempts, Op{K: sk.K})
			continue
		case OpRegisterNew:
			// a rejected relation type, and a plain one that is registered after unlocking
			attempts = append(attempts, Op{K: sk.K, N: 2 * unique, V: 1}, Op{K: sk.K, N: 2*unique + 1, V: 0})
			continue
		}
		mixSave := g.Mix
		g.Mix = Mix{} // no registered-filter substitution inside attempts unless chosen below
		if len(mixSave) > 0 && mixSave["useRegistered"] > 0 {
			g.Mix = Mix{"useRegistered": mixSave["useRegistered"]}
		}
		enabled := true
		if m.NAlive == 0 {
			switch sk.K {
			case OpRemoveEnt, OpAdd, OpRemove, OpExchange, OpAssign, OpBuildAdd, OpRelExchange, OpRelSet:
				enabled = false
			}
		}
		var op Op
		ok := false
		if enabled {
			for try := 0; try < 3 && !ok; try++ {
				op, ok = g.drawKind(t, sk.K)
			}
		}
		g.Mix = mixSave
		if !ok {
			continue
		}
		if sk.K == OpBuildBatch || sk.K == OpBatchAdd || sk.K == OpBatchRemove || sk.K == OpBatchExch || sk.K == OpBatchSetRel || sk.K == OpRelExchB {
			op.Q = sk.Q
			op.Script = nil
		}
		attempts = append(attempts, op)
	}
	// no-effect forms: the lock check comes first, so these are rejected too
	if m.NAlive > 0 {
		e := g.pickAlive(t, "noeffect")
		attempts = append(attempts, Op{K: OpExchange, E: e}, Op{K: OpAdd, E: e, T: TNone})
		if r := m.RelOf(m.Ents[e].Comps); r >= 0 && m.TargetOK(m.Ents[e].Target) {
			attempts = append(attempts, Op{K: OpRelSet, E: e, C: r, T: m.Ents[e].Target})
		}
	}
	never := &F{T: "and", L: &F{T: "mask", Ids: []int{0}}, R: &F{T: "noneof", Ids: []int{0}}}
	attempts = append(attempts, Op{K: OpBatchAdd, Add: []int{0}, F: never, T: TNone}, Op{K: OpRemoveEnts, F: never},
		Op{K: OpBatchExch, F: never, T: TNone})
	attempts = rapid.Permutation(attempts).Draw(t, "attemptorder")

	op := Op{Sub: attempts}
	kind := rapid.IntRange(0, 19).Draw(t, "lockkind")
	relKinds := []string{"next", "next", "step", "close", "countclose", "atclose", "nextclose"}
	switch {
	case kind == 0:
		op.K = OpLockLimit
		op.V = rapid.IntRange(0, 1).Draw(t, "reverse")
		n := rapid.IntRange(0, 6).Draw(t, "nswaps")
		for i := 0; i < n; i++ {
			op.Script = append(op.Script, QStep{K: "swap", N: rapid.IntRange(0, 255).Draw(t, "swap")})
		}
		if len(op.Sub) > 6 {
			op.Sub = op.Sub[:6]
		}
	case kind <= 7:
		// lock held by the query of a Q variant or by a removal event
		var inner Op
		ok := false
		for try := 0; try < 4 && !ok; try++ {
			k := rapid.SampledFrom([]string{OpBuildBatch, OpBatchAdd, OpBatchRemove, OpBatchExch, OpBatchSetRel, OpRelExchB, OpRemoveEnt, OpRemoveEnt, OpRemoveEnts}).Draw(t, "during")
			if (k == OpRemoveEnt) && m.NAlive == 0 {
				continue
			}
			saved := g.Mix
			g.Mix = Mix{}
			inner, ok = g.drawKind(t, k)
			g.Mix = saved
			if ok && k != OpRemoveEnt && k != OpRemoveEnts {
				inner.Q = true
			}
		}
		if !ok {
			inner = Op{K: OpBuildBatch, N: 2, Q: true, T: TNone}
		}
		op.K = OpLockDuring
		op.Sub2 = []Op{inner}
		if inner.K == OpRemoveEnt || inner.K == OpRemoveEnts {
			// subscription of the probing listener: EntityRemoved, or any other generated set
			if rapid.Bool().Draw(t, "probeAll") {
				op.V = rapid.IntRange(1, 63).Draw(t, "probeSubs")
			}
		}
	default:
		op.K = OpLockEpisode
		op.N = rapid.SampledFrom([]int{1, 1, 2, 2, 3, 4, 6}).Draw(t, "depth")
		op.F = g.GenFilter(t, 2, true)
		used, _ := g.regSlots()
		if len(used) > 0 && rapid.Bool().Draw(t, "usereg") {
			op.Reg = true
			op.Slot = pick(t, used, "slot")
		}
		for i := 0; i < op.N; i++ {
			op.Script = append(op.Script, QStep{K: rapid.SampledFrom(relKinds).Draw(t, "release"), N: rapid.IntRange(0, 7).Draw(t, "rn")})
		}
	}
	return op
}
