package core

import (
	"fmt"
	"reflect"

	"github.com/mlange-42/arche/ecs"
)

// Resource operations and the illegal-call classes that are not structural entity operations.

func (s *Sim) doResource(o *Op) {
	k := o.C
	var ill *Illegal
	switch {
	case k < 0 || k >= NumRes:
		s.Report(finding(CatHarness, "bad resource index %d", k))
		return
	case o.K == OpResAdd && s.M.Res[k]:
		ill = illegal("resource %d is already present", k)
	case o.K == OpResRemove && !s.M.Res[k]:
		ill = illegal("resource %d is not present", k)
	}
	if !s.sanity(o, ill) {
		return
	}
	for _, b := range s.Worlds() {
		var ptr any
		p := Call(func() {
			if o.K == OpResAdd {
				ptr = reflect.New(ResType(k)).Interface()
				b.W.Resources().Add(b.ResIDs[k], ptr)
			} else {
				b.W.Resources().Remove(b.ResIDs[k])
			}
		})
		if ill != nil {
			s.afterIllegal(o, b, ill, p, "", true)
			if s.Done() {
				return
			}
			continue
		}
		if p != nil {
			s.unexpectedPanic(o, b, p, CatPanicRes)
			return
		}
		if o.K == OpResAdd {
			b.ResPtr[k] = ptr
		} else {
			b.ResPtr[k] = nil
		}
	}
	if ill != nil {
		return
	}
	s.M.Res[k] = o.K == OpResAdd
	s.checkEvents(o, nil)
}

// doDeadRead: every read accessor that takes an entity must panic for a removed handle.
func (s *Sim) doDeadRead(o *Op) {
	if o.E < 0 || o.E >= len(s.M.Ents) || s.M.Ents[o.E].Alive {
		s.Report(finding(CatHarness, "deadRead of an entity that is not dead: %s", o.Describe()))
		return
	}
	ill := illegal("entity #%d is not alive", o.E)
	for _, b := range s.Worlds() {
		h := b.Handle(o.E)
		c := b.IDs[o.C%len(b.IDs)]
		name := ""
		p := Call(func() {
			switch o.V % 5 {
			case 0:
				name = "Get"
				b.W.Get(h, c)
			case 1:
				name = "Has"
				b.W.Has(h, c)
			case 2:
				name = "Mask"
				b.W.Mask(h)
			case 3:
				name = "Ids"
				b.W.Ids(h)
			case 4:
				name = "Relations.Get"
				b.W.Relations().Get(h, c)
			}
		})
		_ = name
		s.afterIllegal(o, b, ill, p, "", true)
		if s.Done() {
			return
		}
	}
}

// doCacheIll: registering a registered filter and unregistering twice must panic and leave
// all registrations working.
func (s *Sim) doCacheIll(o *Op) {
	if o.V == 3 || o.V == 4 {
		// a query (3) or Batch.RemoveEntities (4) through a filter that was unregistered earlier. Whether
		// the call is refused is not stated anywhere; but if it panics, no query is open afterwards, so
		// the world must not be locked, and nothing may have changed.
		if s.M.NStale == 0 {
			s.Report(finding(CatHarness, "cacheIll v=%d without an unregistered filter", o.V))
			return
		}
		for _, b := range s.Worlds() {
			st := b.Stale[o.Slot%len(b.Stale)]
			var p any
			if o.V == 3 {
				p = Call(func() { q := b.W.Query(st); q.Close() })
			} else {
				p = Call(func() { b.W.Batch().RemoveEntities(st) })
			}
			if p == nil {
				// accepted: the world may have changed in ways the model does not describe
				s.Aborted = true
				if s.St != nil {
					s.St.Count("unregistered_filter_accepted", 1)
				}
				return
			}
			if b.W.IsLocked() {
				s.Report(finding(CatLock, "%s: a call through an unregistered cached filter panicked (%v) and left the world locked although no query is open: %s", b.Name, p, o.Describe()))
				return
			}
			noHooks := FullVerify
			noHooks.Hooks = false
			if err := b.Verify(s.M, noHooks); err != nil {
				s.Report(finding(CatIllegal, "%s: a call through an unregistered cached filter panicked but changed the world: %v", b.Name, err))
				return
			}
		}
		s.label("call through an unregistered cached filter refused")
		return
	}
	if o.V == 2 {
		// a filter that was unregistered earlier (other filters may have been registered since)
		if s.M.NStale == 0 {
			s.Report(finding(CatHarness, "cacheIll v=2 without an unregistered filter"))
			return
		}
		ill := illegal("filter was unregistered before")
		for _, b := range s.Worlds() {
			st := b.Stale[o.Slot%len(b.Stale)]
			p := Call(func() { b.W.Cache().Unregister(st) })
			s.afterIllegal(o, b, ill, p, "", true)
			if s.Done() {
				return
			}
			// every current registration keeps working
			for slot, c := range b.Regs {
				if c == nil {
					continue
				}
				if p := Call(func() { q := b.W.Query(c.Cached); q.Close() }); p != nil {
					s.Report(finding(CatIllegal, "%s: after the rejected Unregister the registered filter in slot %d no longer works: %v", b.Name, slot, p))
					return
				}
			}
		}
		return
	}
	if o.Slot >= len(s.M.Regs) || s.M.Regs[o.Slot] == nil {
		s.Report(finding(CatHarness, "cacheIll on empty slot %d", o.Slot))
		return
	}
	for _, b := range s.Worlds() {
		c := b.Regs[o.Slot]
		switch o.V {
		case 0:
			ill := illegal("filter in slot %d is already registered", o.Slot)
			p := Call(func() { b.W.Cache().Register(c.Cached) })
			s.afterIllegal(o, b, ill, p, "", true)
		case 1:
			// legal unregister, then the illegal second one
			stale := c.Cached
			if p := Call(func() { b.W.Cache().Unregister(stale) }); p != nil {
				s.unexpectedPanic(o, b, p, CatPanicCached)
				return
			}
			b.Regs[o.Slot] = nil
			ill := illegal("filter of slot %d was already unregistered", o.Slot)
			regs := s.M.Regs[o.Slot]
			s.M.Regs[o.Slot] = nil
			b.Stale = append(b.Stale, stale)
			p := Call(func() { b.W.Cache().Unregister(stale) })
			s.afterIllegal(o, b, ill, p, "", true)
			s.M.Regs[o.Slot] = regs
		}
		if s.Done() {
			return
		}
	}
	if o.V%2 == 1 {
		s.M.Regs[o.Slot] = nil
		s.M.NStale++
	}
}

// doTypeLimit registers filler component types until the limit is reached, checks that one
// more registration panics and changes nothing, and that the world keeps working.
func (s *Sim) doTypeLimit(o *Op) {
	for _, b := range s.Worlds() {
		next := len(ecs.ComponentIDs(b.W))
		p := Call(func() {
			for i := next; i < ecs.MaskTotalBits; i++ {
				id := ecs.TypeID(b.W, FillerType(1000+i))
				if got := len(ecs.ComponentIDs(b.W)); got != i+1 {
					panic(fmt.Sprintf("harness: after registering type %d the registry reports %d ids (new id %v)", i, got, id))
				}
			}
		})
		if p != nil {
			s.Report(finding(CatPanicCreate, "%s: registering component types up to the limit panicked: %v", b.Name, p))
			return
		}
		ill := illegal("one component type more than the limit of %d", ecs.MaskTotalBits)
		p = Call(func() { ecs.TypeID(b.W, FillerType(5000)) })
		if p == nil {
			s.Report(finding(CatIllegal, "%s: registering a component type beyond the limit did not panic", b.Name))
			return
		}
		if n := len(ecs.ComponentIDs(b.W)); n != ecs.MaskTotalBits {
			s.Report(finding(CatIllegal, "%s: rejected registration changed the registry: %d ids", b.Name, n))
			return
		}
		// registered types stay resolvable
		if id := ecs.TypeID(b.W, b.U.Spec(0).Type); id != b.IDs[0] {
			s.Report(finding(CatIllegal, "%s: after the rejected registration a known type resolves to another id", b.Name))
			return
		}
		s.afterIllegal(o, b, ill, p, "", true)
		if s.Done() {
			return
		}
	}
	s.label("type limit reached")
}

// OpLockedRegistration: a first-time registration of a relation type is attempted in a locked
// world (must panic), then - unlocked - a plain type is registered; relation calls naming that
// plain component must panic like for any non-relation component.
const OpLockedRegistration = "lockedRegistration"

func (s *Sim) doLockedRegistration(o *Op) {
	for _, b := range s.Worlds() {
		if len(ecs.ComponentIDs(b.W)) >= ecs.MaskTotalBits-1 {
			continue
		}
		relT := newTypeFor(&Op{N: 2*o.N + 100000, V: 1})
		plainT := newTypeFor(&Op{N: 2*o.N + 100001, V: 0})
		q := b.W.Query(ecs.All())
		p := Call(func() { ecs.TypeID(b.W, relT) })
		q.Close()
		if p == nil {
			s.Report(finding(CatIllegal, "%s: registering a new component type in a locked world did not panic", b.Name))
			return
		}
		var id ecs.ID
		if p := Call(func() { id = ecs.TypeID(b.W, plainT) }); p != nil {
			s.Report(finding(CatIllegal, "%s: registering a component type after a rejected registration panicked: %v", b.Name, p))
			return
		}
		var e ecs.Entity
		if p := Call(func() { e = b.W.NewEntity(id) }); p != nil {
			s.Report(finding(CatIllegal, "%s: creating an entity with a freshly registered plain component panicked: %v", b.Name, p))
			return
		}
		ill := illegal("component %v is not a relation", plainT)
		pg := Call(func() { b.W.Relations().Get(e, id) })
		ps := Call(func() { b.W.Relations().Set(e, id, ecs.Entity{}) })
		if p := Call(func() { b.W.RemoveEntity(e) }); p != nil {
			s.Report(finding(CatIllegal, "%s: removing the probe entity panicked: %v", b.Name, p))
			return
		}
		if pg == nil || ps == nil {
			s.Report(finding(CatIllegal, "%s: relation call naming a plain component (registered right after a relation type was refused in a locked world) did not panic (%s): Get panicked=%v Set panicked=%v", b.Name, ill.Why, pg != nil, ps != nil))
			return
		}
	}
	s.label("registration refused under lock, then relation call on the next plain type")
}
