package core

import (
	"encoding/json"
	"fmt"
)

// Target argument conventions for Op.T.
const (
	TNone = -2 // no target argument given
	TZero = -1 // the zero entity
)

// Op is one call of the public API, as plain data. Entities are named by creation ordinal,
// components by component index of the case's universe.
type Op struct {
	K    string   `json:"k"`             // kind, see the constants below
	E    int      `json:"e,omitempty"`   // entity ordinal
	Add  []int    `json:"add,omitempty"` // components to add / create with
	Rem  []int    `json:"rem,omitempty"` // components to remove
	Tok  []uint32 `json:"tok,omitempty"` // value tokens, parallel to Add (value variants) or [1] for set/write
	C    int      `json:"c,omitempty"`   // component (set / write / relation component)
	T    int      `json:"t,omitempty"`   // target ordinal, TZero, TNone
	N    int      `json:"n,omitempty"`   // count
	F    *F       `json:"f,omitempty"`   // filter
	Slot int      `json:"slot,omitempty"`
	Reg  bool     `json:"reg,omitempty"` // use the registered filter in Slot instead of F
	Q    bool     `json:"q,omitempty"`   // Q variant (returns a query)
	V    int      `json:"v,omitempty"`   // API path variant
	Rel  bool     `json:"rel,omitempty"` // builder: WithRelation(C) given
	Vals bool     `json:"vals,omitempty"`
	// Script drives a query opened by this op (query ops and Q variants).
	Script []QStep `json:"script,omitempty"`
	// Ill names the illegal-argument class this op was built to exercise ("" = legal).
	Ill string `json:"ill,omitempty"`
	// Sub holds nested ops (e.g. attempts made while a query is open).
	Sub []Op `json:"sub,omitempty"`
	// Sub2 holds the op during which a lock is held (lockDuring).
	Sub2 []Op `json:"sub2,omitempty"`
	// GC forces a garbage collection before the op (C13).
	GC bool `json:"gc,omitempty"`
}

// QStep is one step of a query script.
type QStep struct {
	K string `json:"k"`           // next | step | count | at | close | all
	N int    `json:"n,omitempty"` // step size / index
}

// Operation kinds.
const (
	OpNew         = "new"         // World.NewEntity(Add...)
	OpNewWith     = "newWith"     // World.NewEntityWith(values of Add/Tok)
	OpBuildNew    = "bnew"        // Builder (ids or values) [WithRelation(C)] .New([T])
	OpBuildBatch  = "bbatch"      // Builder ... .NewBatch(N,[T]) / NewBatchQ
	OpRemoveEnt   = "rm"          // World.RemoveEntity
	OpRemoveEnts  = "rmAll"       // Batch.RemoveEntities(filter)
	OpAdd         = "add"         // World.Add
	OpRemove      = "remove"      // World.Remove
	OpExchange    = "exchange"    // World.Exchange
	OpAssign      = "assign"      // World.Assign
	OpBuildAdd    = "badd"        // Builder.Add(e,[T])
	OpRelExchange = "relExchange" // Relations.Exchange
	OpSet         = "set"         // World.Set
	OpWriteGet    = "wget"        // write through World.Get pointer (V=1: GetUnchecked)
	OpWriteQuery  = "wquery"      // write through Query.Get pointer while iterating
	OpRelSet      = "relSet"      // Relations.Set
	OpBatchAdd    = "batchAdd"    // Batch.Add / AddQ
	OpBatchRemove = "batchRemove" // Batch.Remove / RemoveQ
	OpBatchExch   = "batchExchange"
	OpBatchSetRel = "batchSetRel"  // Batch.SetRelation(Q) (V=1: Relations.SetBatch(Q))
	OpRelExchB    = "relExchangeB" // Relations.ExchangeBatch(Q)
	OpQuery       = "query"        // World.Query(filter) + script
	OpRegister    = "register"     // Cache.Register(F) into Slot
	OpUnregister  = "unregister"   // Cache.Unregister(Slot)
	OpReset       = "reset"        // World.Reset
	OpGC          = "gc"           // runtime.GC (C13)
	OpResAdd      = "resAdd"       // Resources.Add
	OpResRemove   = "resRemove"    // Resources.Remove
	OpDumpLoad    = "dumpLoad"     // DumpEntities + LoadEntities (C17 drives this itself)
	OpFanout      = "fanout"       // N parents (components Add) and N children (components Rem, relation C), one child per parent
	OpDumpSave    = "dumpSave"     // DumpEntities, kept for a later dumpRestore
	OpDumpRestore = "dumpRestore"  // Reset + LoadEntities of the kept dump: back to the dump-time entity state
	OpDeadRead    = "deadRead"     // read accessor with a dead handle (V selects it): must panic
	OpCacheIll    = "cacheIll"     // V=0 register a registered filter, V=1 unregister twice
	OpTypeLimit   = "typeLimit"    // register component types up to the limit, then one more
	OpSetListener = "setListener"  // SetListener (V selects the configuration)
)

func (o Op) String() string {
	b, _ := json.Marshal(o)
	return string(b)
}

// Describe renders an op compactly for logs and hashes.
func (o *Op) Describe() string {
	s := o.K
	if o.Ill != "" {
		s += "!" + o.Ill
	}
	switch o.K {
	case OpNew, OpNewWith:
		s += fmt.Sprint(o.Add)
	case OpBuildNew, OpBuildBatch:
		s += fmt.Sprintf("%v n=%d rel=%v/%d t=%d q=%v vals=%v", o.Add, o.N, o.Rel, o.C, o.T, o.Q, o.Vals)
	case OpRemoveEnt:
		s += fmt.Sprintf("(#%d)", o.E)
	case OpAdd, OpRemove, OpExchange, OpAssign:
		s += fmt.Sprintf("(#%d +%v -%v)", o.E, o.Add, o.Rem)
	case OpBuildAdd, OpRelExchange:
		s += fmt.Sprintf("(#%d +%v -%v rel=%v/%d t=%d vals=%v)", o.E, o.Add, o.Rem, o.Rel, o.C, o.T, o.Vals)
	case OpSet, OpWriteGet, OpWriteQuery:
		s += fmt.Sprintf("(#%d c=%d tok=%v v=%d)", o.E, o.C, o.Tok, o.V)
	case OpRelSet:
		s += fmt.Sprintf("(#%d c=%d t=%d)", o.E, o.C, o.T)
	case OpFanout:
		s += fmt.Sprintf(" n=%d parents%v children%v rel=%d", o.N, o.Add, o.Rem, o.C)
	case OpLockEpisode, OpLockDuring, OpLockLimit:
		s += fmt.Sprintf(" n=%d v=%d attempts=%d script=%v", o.N, o.V, len(o.Sub), o.Script)
		if o.F != nil {
			s += "[" + o.F.String() + "]"
		}
		for i := range o.Sub2 {
			s += " during{" + o.Sub2[i].Describe() + "}"
		}
	case OpAddListener:
		s += fmt.Sprintf("(world %d types %06b comps %v restricted=%v kind=%d)", o.Slot, o.V, o.Add, o.Vals, o.N)
	case OpReset, OpGC, OpDumpLoad, OpTypeLimit, OpRegisterNew, OpLoadEnts, OpDumpSave, OpDumpRestore, OpLockedRegistration:
	case OpResAdd, OpResRemove:
		s += fmt.Sprintf("(res %d)", o.C)
	case OpDeadRead, OpCacheIll:
		s += fmt.Sprintf("(#%d slot=%d v=%d)", o.E, o.Slot, o.V)
	default:
		if o.F != nil {
			s += "[" + o.F.String() + "]"
		}
		if o.Reg {
			s += fmt.Sprintf("[slot %d]", o.Slot)
		}
		s += fmt.Sprintf(" +%v -%v c=%d t=%d q=%v v=%d", o.Add, o.Rem, o.C, o.T, o.Q, o.V)
		if len(o.Script) > 0 {
			s += fmt.Sprintf(" script=%v", o.Script)
		}
	}
	return s
}
